//go:build mysql || postgres
// +build mysql postgres

package postgres

// C18 — multi-row store updates are all-or-nothing (SQL adapters).
//
// THIS FILE IS SHARED: harness/c18mysql/c18common_test.go is the source of truth,
// harness/c18pg/c18common_test.go is produced from it by harness/c18mysql/sync.sh
// (only the package clause differs). It holds everything that does not depend on
// the wire protocol: the case format, the scripted statement engine of the fake
// server (c18Core), the operation catalogue, the oracle and the check loops.
//
// One case = (operation, arguments, result script, fault position k, fault kind).
// Fault kinds (c18KindApplies, c18WireErr): err (generic statement error), dup (unique violation
// on an INSERT), drop (connection lost), stall, and the error numbers adapters are tempted to
// special-case, with the server-side semantics that go with them:
//   MySQL       deadlock  1213/40001: InnoDB has ROLLED BACK THE WHOLE TRANSACTION of the victim.
//                         The bracket ends there ("server-rollback"); every later statement on that
//                         connection runs in autocommit mode (a write is committed on its own) and a
//                         later COMMIT / ROLLBACK is a no-op.
//               lockwait  1205/HY000: only the statement is rolled back, the transaction stays open.
//   PostgreSQL  deadlock 40P01, fk 23503, cancel 57014: like every error inside a transaction
//                         block they put it into the aborted state (25P02 for everything except
//                         ROLLBACK / ROLLBACK TO SAVEPOINT <existing name>; COMMIT answers ROLLBACK).
// Savepoints are tracked by name on both servers: ROLLBACK TO / RELEASE of a name that was not
// established (e.g. because the SAVEPOINT statement itself failed) is an error (3B001 / 1305) and
// does not revive an aborted PostgreSQL transaction.
// A fresh fake server + a fresh adapter instance are used for every run; a run is
// a pure function of the case. The oracle only looks at what the property names
// as observation points: the sequence of BEGIN / statement / COMMIT / ROLLBACK the
// database server saw, per connection, and the error returned to the caller.
//
// Units (registered in units.d/c18.py): TestC18<Adapter> (rapid-generated cases),
// TestC18<Adapter>Enum (every k x every kind for a fixed scenario list), TestC18<Adapter>Stall
// (thorough tier only, real time: statement k answered after the sql_timeout deadline).
// Development aids: TestC18<Adapter>Show with C18_SHOW=1|short prints the fault-free trace of
// every enumeration scenario; C18_SQL_TIMEOUT=1 runs every case with sql_timeout=1.
//
// Position numbering: every statement the server receives during the adapter call
// counts (BEGIN/START TRANSACTION = 1, PREPARE and EXECUTE count separately for
// MySQL, SAVEPOINT/RELEASE count for PostgreSQL, COMMIT is the last one). ROLLBACK
// is never counted and never faulted: it is only ever sent because of a fault.

import (
	"encoding/json"
	"fmt"
	"os"
	"regexp"
	"sort"
	"strconv"
	"strings"
	"sync"
	"testing"
	"time"

	"github.com/tinode/chat/server/auth"
	dbi "github.com/tinode/chat/server/db"
	t "github.com/tinode/chat/server/store/types"
	kit "github.com/tinode/chat/server/zzverifkit"
	"pgregory.net/rapid"
)

// ------------------------------------------------------------------ case format

// c18Script tells the fake server what to answer (fault-free part of the scenario).
type c18Script struct {
	Sel []int `json:"sel,omitempty"` // rows returned by the i-th SELECT (default 0)
	Aff []int `json:"aff,omitempty"` // rows affected by the i-th UPDATE/DELETE (default 1)
	Dup []int `json:"dup,omitempty"` // 1-based ordinals of INSERTs answered with a duplicate-key error
}

type c18Args struct {
	U       uint64   `json:"u,omitempty"`
	U2      uint64   `json:"u2,omitempty"`
	Topic   string   `json:"topic,omitempty"`
	Hard    bool     `json:"hard,omitempty"`
	Chan    bool     `json:"chan,omitempty"`
	Tags    []string `json:"tags,omitempty"`
	HasTags bool     `json:"hasTags,omitempty"` // update map carries a Tags entry
	State   int      `json:"state,omitempty"`   // 0 none, 1 typed ObjState, 2 wrongly typed value
	Add     []string `json:"add,omitempty"`
	Rem     []string `json:"rem,omitempty"`
	Reset   []string `json:"reset,omitempty"`
	IsReset bool     `json:"isReset,omitempty"` // reset != nil
	Owners  []bool   `json:"owners,omitempty"`  // one entry per subscription: owner access?
	Ranges  [][2]int `json:"ranges,omitempty"`
	Soft    bool     `json:"soft,omitempty"`   // DelMessage.DeletedFor set
	NilDel  bool     `json:"nilDel,omitempty"` // toDel == nil (whole topic)
	Done    bool     `json:"done,omitempty"`
	Method  string   `json:"method,omitempty"`
	Value   string   `json:"value,omitempty"`
	DevID   string   `json:"dev,omitempty"`
	Success bool     `json:"success,omitempty"`
	Limit   int      `json:"limit,omitempty"`
	Older   bool     `json:"older,omitempty"`
	LinkBy  string   `json:"linkBy,omitempty"` // msg | topic | user
	NFids   int      `json:"nfids,omitempty"`
	AllSubs bool     `json:"allSubs,omitempty"` // SubsUpdate with zero uid
}

type c18Case struct {
	Op    string    `json:"op"`
	A     c18Args   `json:"a"`
	S     c18Script `json:"s"`
	K     int       `json:"k"`               // 0 = no fault
	Kind  string    `json:"kind,omitempty"`  // err | dup | drop | stall | deadlock | lockwait (MySQL) | fk, cancel (PostgreSQL)
	Trace []string  `json:"trace,omitempty"` // display only, never hashed, ignored on replay
}

func (c c18Case) key() c18Case { c.Trace = nil; return c }

// ------------------------------------------------------------------ scripted statement engine

type c18Ev struct {
	Conn  int
	Pos   int // fault position (0: not counted)
	Cls   string
	Res   string // ok | err | dup | drop | deadlock | lockwait | fk | cancel | aborted | rolledback | nosavepoint | notintx | closed
	InTx  bool   // the connection had an open transaction when the statement arrived
	Ins   bool   // INSERT (directly or through EXECUTE)
	Fault bool
	Stall bool // the fault is a late answer (the statement itself is executed as scripted)
	SrvRb bool // answering this statement the server rolled back and ENDED the transaction (MySQL deadlock victim)
	Text  string
}

func (e c18Ev) String() string {
	tx := " "
	if e.InTx {
		tx = "T"
	}
	s := e.Text
	if len(s) > 70 {
		s = s[:70] + "…"
	}
	f := ""
	if e.Fault {
		f = " <== FAULT"
	}
	if e.Fault && e.Stall {
		f = " <== STALLED beyond the deadline"
	}
	if e.SrvRb {
		f += " (the server has rolled back the whole transaction: the connection is in autocommit mode from here on)"
	}
	return fmt.Sprintf("c%d %s #%d %s -> %s%s", e.Conn, tx, e.Pos, s, e.Res, f)
}

type c18Col struct {
	Name string
	Typ  byte // 'b' bool, 'i' int, 's' string
}

type c18Reply struct {
	Res  string // ok | rows | rolledback | drop | any key of c18WireErr (err, dup, deadlock, lockwait, fk, cancel, aborted, nosavepoint, notintx)
	Cls  string
	Verb string
	Aff  int
	Cols []c18Col
	Rows [][]string
	Tx   byte // transaction status of the connection after the statement: I, T, E
	// Stall: answer only after c18StallFor (the statement itself is then executed normally);
	// the wire layer must call core.stallEnd() once the (late) answer has been written.
	Stall bool
}

type c18ConnSt struct {
	id     int
	tx     byte
	closed bool
	sps    []string // names of the savepoints established in the open transaction, oldest first
}

// c18WireErr is the error a real server sends for a failed statement: MySQL error number +
// SQLSTATE, PostgreSQL SQLSTATE (Code 0). The wire layers answer every reply whose Res is not
// ok / rows / rolledback / drop through this table.
type c18ErrInfo struct {
	Code  int
	State string
	Msg   string
}

func c18WireErr(pg bool, res string) c18ErrInfo {
	if pg {
		switch res {
		case "dup":
			return c18ErrInfo{0, "23505", "duplicate key value violates unique constraint \"x\""}
		case "deadlock":
			return c18ErrInfo{0, "40P01", "deadlock detected"}
		case "fk":
			return c18ErrInfo{0, "23503", "insert or update on table \"t\" violates foreign key constraint \"x\""}
		case "cancel":
			return c18ErrInfo{0, "57014", "canceling statement due to statement timeout"}
		case "aborted":
			return c18ErrInfo{0, "25P02", "current transaction is aborted, commands ignored until end of transaction block"}
		case "nosavepoint":
			return c18ErrInfo{0, "3B001", "savepoint does not exist"}
		case "notintx":
			return c18ErrInfo{0, "25P01", "SAVEPOINT can only be used in transaction blocks"}
		}
		return c18ErrInfo{0, "XX000", "injected failure"}
	}
	switch res {
	case "dup":
		return c18ErrInfo{1062, "23000", "Duplicate entry 'x' for key 'PRIMARY'"}
	case "deadlock":
		return c18ErrInfo{1213, "40001", "Deadlock found when trying to get lock; try restarting transaction"}
	case "lockwait":
		return c18ErrInfo{1205, "HY000", "Lock wait timeout exceeded; try restarting transaction"}
	case "nosavepoint":
		return c18ErrInfo{1305, "42000", "SAVEPOINT does not exist"}
	}
	return c18ErrInfo{1105, "HY000", "injected failure"}
}

// c18AllKinds: every fault kind of the enumeration, in enumeration order (stall is separate).
var c18AllKinds = []string{"err", "dup", "drop", "deadlock", "lockwait", "fk", "cancel"}

// c18KindApplies: can statement e (an event of the fault-free trace) fail in this way on this
// DBMS? Lock conflicts and constraint violations only hit data-modifying statements; a statement
// timeout / cancel request hits whatever statement is running.
func c18KindApplies(kind string, e c18Ev) bool {
	switch kind {
	case "err", "drop", "stall":
		return true
	case "dup":
		return e.Ins
	case "deadlock":
		return e.Cls == "write"
	case "lockwait":
		return c18AdapterName == "mysql" && e.Cls == "write"
	case "fk":
		return c18AdapterName == "postgres" && e.Cls == "write"
	case "cancel":
		return c18AdapterName == "postgres" && (e.Cls == "write" || e.Cls == "read")
	}
	return false
}

// c18SpName: the savepoint name of SAVEPOINT x / RELEASE [SAVEPOINT] x / ROLLBACK [WORK] TO [SAVEPOINT] x.
func c18SpName(sql string) string {
	f := strings.Fields(strings.TrimRight(strings.TrimSpace(sql), ";"))
	if len(f) == 0 {
		return ""
	}
	return strings.ToLower(f[len(f)-1])
}

func c18SpFind(sps []string, name string) int {
	for i := len(sps) - 1; i >= 0; i-- {
		if sps[i] == name {
			return i
		}
	}
	return -1
}

type c18Core struct {
	mu     sync.Mutex
	pg     bool
	armed  bool
	script c18Script
	fk     int
	fkind  string
	pos    int
	nSel   int
	nAff   int
	nIns   int
	nconn  int
	stalls int // statements whose late answer is still pending
	evs    []c18Ev
}

// c18StallFor is how long a stalled statement is held back: longer than the 1 s deadline
// that sql_timeout=1 gives a transaction (txTimeout = int(1*1.5) s = 1 s).
const c18StallFor = 1500 * time.Millisecond

func (s *c18Core) stallEnd() {
	s.mu.Lock()
	s.stalls--
	s.mu.Unlock()
}

// quiet reports whether no late answer is pending and no transaction is open at the server.
func (s *c18Core) quiet() bool {
	s.mu.Lock()
	defer s.mu.Unlock()
	if s.stalls > 0 {
		return false
	}
	for _, tx := range c18Brackets(s.evs) {
		if tx.end == "" {
			return false
		}
	}
	return true
}

func (s *c18Core) connOpen() *c18ConnSt {
	s.mu.Lock()
	defer s.mu.Unlock()
	s.nconn++
	return &c18ConnSt{id: s.nconn, tx: 'I'}
}

// connClosed is called when the connection goes away for whatever reason.
func (s *c18Core) connClosed(c *c18ConnSt) {
	s.mu.Lock()
	defer s.mu.Unlock()
	s.closeLocked(c)
}

func (s *c18Core) closeLocked(c *c18ConnSt) {
	if c.closed {
		return
	}
	c.closed = true
	c.sps = nil
	if s.armed {
		s.evs = append(s.evs, c18Ev{Conn: c.id, Cls: "close", Res: "closed", InTx: c.tx != 'I', Text: "(connection closed)"})
	}
	c.tx = 'I'
}

func (s *c18Core) arm(script c18Script, k int, kind string) {
	s.mu.Lock()
	s.armed, s.script, s.fk, s.fkind = true, script, k, kind
	s.pos, s.nSel, s.nAff, s.nIns, s.evs = 0, 0, 0, 0, nil
	s.mu.Unlock()
}

func (s *c18Core) snapshot() []c18Ev {
	s.mu.Lock()
	defer s.mu.Unlock()
	return append([]c18Ev(nil), s.evs...)
}

var c18TimeRe = regexp.MustCompile(`'\d{4}-\d\d-\d\d[ T]\d\d:\d\d:\d\d(\.\d+)?Z?'`)

func c18Classify(sql string) (cls, verb string) {
	up := strings.ToUpper(strings.TrimSpace(sql))
	switch {
	case strings.HasPrefix(up, "START TRANSACTION"), strings.HasPrefix(up, "BEGIN"):
		return "begin", "BEGIN"
	case strings.HasPrefix(up, "COMMIT"):
		return "commit", "COMMIT"
	case strings.HasPrefix(up, "ROLLBACK TO"):
		return "rollbackto", "ROLLBACK"
	case strings.HasPrefix(up, "ROLLBACK"):
		return "rollback", "ROLLBACK"
	case strings.HasPrefix(up, "SAVEPOINT"):
		return "savepoint", "SAVEPOINT"
	case strings.HasPrefix(up, "RELEASE"):
		return "release", "RELEASE"
	case strings.HasPrefix(up, "SELECT"):
		return "read", "SELECT"
	case strings.HasPrefix(up, "INSERT"):
		return "write", "INSERT"
	case strings.HasPrefix(up, "REPLACE"):
		return "write", "INSERT"
	case strings.HasPrefix(up, "UPDATE"):
		return "write", "UPDATE"
	case strings.HasPrefix(up, "DELETE"):
		return "write", "DELETE"
	}
	return "other", "OTHER"
}

func c18In(xs []int, v int) bool {
	for _, x := range xs {
		if x == v {
			return true
		}
	}
	return false
}

// stmt decides the answer to one statement. mode: 0 plain query, 1 PREPARE, 2 EXECUTE
// of a prepared statement whose text is sql.
func (s *c18Core) stmt(c *c18ConnSt, sql string, mode int) c18Reply {
	s.mu.Lock()
	defer s.mu.Unlock()
	cls, verb := c18Classify(sql)
	text := sql
	switch mode {
	case 1:
		cls, verb, text = "prepare", "PREPARE", "PREPARE "+sql
	case 2:
		text = "EXECUTE " + sql
	}
	rep := c18Reply{Res: "ok", Cls: cls, Verb: verb}
	if !s.armed {
		// connection set-up traffic (version query of store.Open): canned answers
		if cls == "read" {
			rep.Res = "rows"
			if strings.Contains(strings.ToUpper(sql), "KVMETA") {
				rep.Cols = []c18Col{{"value", 's'}}
				rep.Rows = [][]string{{"113"}}
			} else {
				rep.Cols = []c18Col{{"x", 's'}}
			}
		}
		rep.Tx = c.tx
		return rep
	}
	// wall-clock values the adapter puts into the SQL text (types.TimeNow) are masked so that the
	// recorded trace is a pure function of the case
	ev := c18Ev{Conn: c.id, Cls: cls, InTx: c.tx != 'I', Text: c18TimeRe.ReplaceAllString(text, "'<time>'"), Ins: verb == "INSERT" && cls == "write"}
	if cls != "rollback" {
		s.pos++
		ev.Pos = s.pos
	}
	fault := ev.Pos != 0 && ev.Pos == s.fk
	if fault && s.fkind == "stall" {
		// the statement is executed as scripted, only its answer comes after the deadline
		ev.Fault, ev.Stall, rep.Stall, fault = true, true, true, false
		s.stalls++
	}
	switch {
	case fault:
		ev.Fault = true
		rep.Res = s.fkind
		switch s.fkind {
		case "drop":
			ev.Res = "drop"
			s.evs = append(s.evs, ev)
			s.closeLocked(c)
			rep.Tx = 'I'
			return rep
		default: // err, dup, deadlock, lockwait, fk, cancel
			if cls == "commit" {
				// a COMMIT that fails ends the transaction without making it durable
				c.tx, c.sps = 'I', nil
			} else if s.pg && c.tx == 'T' {
				c.tx = 'E'
			} else if !s.pg && s.fkind == "deadlock" && c.tx != 'I' {
				// InnoDB rolls back the whole transaction of a deadlock victim: the transaction is
				// over at the server, the session is back in autocommit mode
				c.tx, c.sps = 'I', nil
				ev.SrvRb = true
			}
		}
	case s.pg && c.tx == 'E' && cls != "rollback" && cls != "rollbackto" && cls != "commit":
		rep.Res = "aborted"
	default:
		switch cls {
		case "begin":
			c.tx, c.sps = 'T', nil
		case "commit":
			if s.pg && c.tx == 'E' {
				rep.Res = "rolledback"
			}
			c.tx, c.sps = 'I', nil
		case "rollback":
			c.tx, c.sps = 'I', nil
		case "savepoint":
			switch {
			case c.tx != 'I':
				c.sps = append(c.sps, c18SpName(sql))
			case s.pg:
				rep.Res = "notintx"
			}
			// MySQL outside a transaction: accepted, but the savepoint is gone with the (autocommitted) statement
		case "rollbackto", "release":
			i := c18SpFind(c.sps, c18SpName(sql))
			switch {
			case s.pg && c.tx == 'I':
				rep.Res = "notintx"
			case i < 0:
				// the name was never established (or the transaction it belonged to is over)
				rep.Res = "nosavepoint"
				if s.pg && c.tx == 'T' {
					c.tx = 'E'
				}
			case cls == "rollbackto":
				c.sps = c.sps[:i+1] // the savepoint itself survives
				if c.tx == 'E' {
					c.tx = 'T'
				}
			default:
				c.sps = c.sps[:i]
			}
		case "read":
			s.nSel++
			n := 0
			if s.nSel <= len(s.script.Sel) {
				n = s.script.Sel[s.nSel-1]
			}
			rep.Res = "rows"
			rep.Cols, rep.Rows = c18Rows(sql, n)
		case "write":
			if ev.Ins {
				s.nIns++
				if c18In(s.script.Dup, s.nIns) {
					rep.Res = "dup"
					if s.pg && c.tx == 'T' {
						c.tx = 'E'
					}
				} else {
					rep.Aff = 1
					if strings.Contains(strings.ToUpper(sql), " RETURNING ") {
						// INSERT ... RETURNING id (PostgreSQL MessageSave)
						rep.Res = "rows"
						rep.Cols, rep.Rows = []c18Col{{"id", 'i'}}, [][]string{{"1"}}
					}
				}
			} else {
				s.nAff++
				rep.Aff = 1
				if s.nAff <= len(s.script.Aff) {
					rep.Aff = s.script.Aff[s.nAff-1]
				}
			}
		}
	}
	ev.Res = rep.Res
	if rep.Res == "rows" && ev.Ins {
		ev.Res = "ok"
	} else if rep.Res == "rows" {
		ev.Res = "rows=" + strconv.Itoa(len(rep.Rows))
	} else if rep.Res == "ok" && cls == "write" && !ev.Ins {
		ev.Res = "ok aff=" + strconv.Itoa(rep.Aff)
	}
	s.evs = append(s.evs, ev)
	rep.Tx = c.tx
	return rep
}

// c18Rows synthesises a result set with the column names/types the adapter scans.
func c18Rows(sql string, n int) ([]c18Col, [][]string) {
	up := strings.ToUpper(strings.TrimSpace(sql))
	var cols []c18Col
	var rows [][]string
	switch {
	case strings.HasPrefix(up, "SELECT DONE"):
		cols = []c18Col{{"done", 'b'}}
		for i := 0; i < n; i++ {
			rows = append(rows, []string{"1"})
		}
	case strings.HasPrefix(up, "SELECT TAG"):
		cols = []c18Col{{"tag", 's'}}
		for i := 0; i < n; i++ {
			rows = append(rows, []string{"tag" + strconv.Itoa(i)})
		}
	case strings.HasPrefix(up, "SELECT FU.ID"):
		cols = []c18Col{{"id", 'i'}, {"location", 's'}}
		for i := 0; i < n; i++ {
			loc := "loc" + strconv.Itoa(i)
			if i%2 == 1 {
				loc = ""
			}
			rows = append(rows, []string{strconv.Itoa(100 + i), loc})
		}
	case strings.Contains(up, "KVMETA"):
		cols = []c18Col{{"value", 's'}}
		rows = [][]string{{"113"}}
	default:
		cols = []c18Col{{"x", 's'}}
	}
	return cols, rows
}

// ------------------------------------------------------------------ one run

type c18RunRes struct {
	Evs    []c18Ev
	Err    error
	Panic  string
	Hang   bool
	OpenFn string
}

var c18T0 = time.Date(2026, 9, 1, 10, 0, 0, 0, time.UTC)

// c18Run executes the operation of c on a fresh server and adapter with the given fault.
func c18Run(c *c18Case, k int, kind string) c18RunRes {
	c18Boot()
	op := c18Ops[c.Op]
	srv, err := c18StartServer()
	if err != nil {
		return c18RunRes{OpenFn: "server: " + err.Error()}
	}
	defer srv.stop()
	adp := c18NewAdapter()
	// C18_SQL_TIMEOUT=1 is a development aid: run every case with sql_timeout=1 (as the Stall
	// units do) to see what the drivers' deadline handling adds; not used by any registered unit.
	withTimeout := kind == "stall" || os.Getenv("C18_SQL_TIMEOUT") != ""
	if err := adp.Open(json.RawMessage(srv.config(withTimeout))); err != nil {
		return c18RunRes{OpenFn: "open: " + err.Error()}
	}
	srv.core.arm(c.S, k, kind)
	var res c18RunRes
	done := make(chan struct{})
	go func() {
		defer close(done)
		defer func() {
			if p := recover(); p != nil {
				res.Panic = fmt.Sprint(p)
			}
		}()
		args := c.A
		res.Err = op.Run(adp, &args)
	}()
	select {
	case <-done:
	case <-time.After(30 * time.Second): // safety net against a bug in the fake server, not an oracle
		return c18RunRes{Hang: true, Evs: srv.core.snapshot()}
	}
	if withTimeout {
		// Deadline expiry is handled asynchronously by the drivers (database/sql rolls back from
		// a watcher goroutine, pgx closes the connection from one): give the server up to 10 s of
		// real time to see the end of the transaction. Only "still open after that" is judged.
		for i := 0; i < 1000 && !srv.core.quiet(); i++ {
			time.Sleep(10 * time.Millisecond)
		}
	}
	res.Evs = srv.core.snapshot()
	leaked := false
	for _, tx := range c18Brackets(res.Evs) {
		// "" : still open at the server. "connclosed": ended by the loss of the connection; the
		// adapter may or may not have finished its client-side transaction object (a forgotten
		// one keeps its pool slot for ever and makes pgxpool.Close block).
		if tx.end == "" || tx.end == "connclosed" {
			leaked = true
		}
	}
	c18CloseAdapter(adp, leaked)
	return res
}

// ------------------------------------------------------------------ oracle

type c18Sp struct {
	name string
	idx  int
}

type c18Tx struct {
	conn     int
	end      string // "" (still open) | commit | rollback | commit-failed | commit-rolledback | connclosed | server-rollback
	okWrites int
	bad      []int   // indices of failed statements that were not undone by ROLLBACK TO SAVEPOINT
	undone   []int   // indices of failed statements whose effects (none) were undone by a later ROLLBACK TO SAVEPOINT
	sps      []c18Sp // established savepoints, oldest first
}

type c18View struct {
	txs        []*c18Tx
	outside    []int // data-modifying statements received outside any transaction
	failed     []int // every failed statement (inside or outside a transaction)
	autocommit []int // successful data-modifying statements received after the server had rolled back the
	// connection's transaction (MySQL deadlock victim) and before any new BEGIN: each one is committed on its own
}

func c18Brackets(evs []c18Ev) []*c18Tx { return c18Walk(evs).txs }

func c18Walk(evs []c18Ev) c18View {
	var v c18View
	open := map[int]*c18Tx{}
	srvRb := map[int]bool{} // connection -> its transaction was ended by a server-side rollback, no BEGIN since
	for i, e := range evs {
		tx := open[e.Conn]
		okRes := e.Res == "ok" || strings.HasPrefix(e.Res, "ok ") || strings.HasPrefix(e.Res, "rows")
		if !okRes && e.Cls != "close" && e.Res != "rolledback" {
			v.failed = append(v.failed, i)
		}
		if e.SrvRb {
			// the failed statement took the whole transaction with it; nothing the client sends
			// afterwards (COMMIT and ROLLBACK included) belongs to a transaction any more
			if tx != nil {
				tx.bad = append(tx.bad, i)
				tx.end = "server-rollback"
				delete(open, e.Conn)
			}
			srvRb[e.Conn] = true
			continue
		}
		spIdx := func() int {
			if tx == nil {
				return -1
			}
			name := c18SpName(e.Text)
			for j := len(tx.sps) - 1; j >= 0; j-- {
				if tx.sps[j].name == name {
					return j
				}
			}
			return -1
		}
		switch e.Cls {
		case "begin":
			if okRes && tx == nil {
				ntx := &c18Tx{conn: e.Conn}
				open[e.Conn] = ntx
				v.txs = append(v.txs, ntx)
				delete(srvRb, e.Conn)
			}
		case "commit":
			if tx != nil {
				switch {
				case okRes:
					tx.end = "commit"
				case e.Res == "rolledback":
					tx.end = "commit-rolledback"
				case e.Res == "drop":
					tx.end = "connclosed"
				default:
					tx.end = "commit-failed"
				}
				delete(open, e.Conn)
			}
		case "rollback":
			if tx != nil {
				tx.end = "rollback"
				delete(open, e.Conn)
			}
		case "close":
			if tx != nil {
				tx.end = "connclosed"
				delete(open, e.Conn)
			}
		case "savepoint":
			if tx != nil && okRes {
				tx.sps = append(tx.sps, c18Sp{c18SpName(e.Text), i})
			} else if tx != nil {
				tx.bad = append(tx.bad, i)
			}
		case "rollbackto":
			if j := spIdx(); tx != nil && okRes && j >= 0 {
				// everything after the savepoint is undone, the failures included: they no longer
				// stand in the way of a COMMIT as far as the DBMS is concerned (c18Judge still asks
				// whether the adapter was entitled to carry on after them)
				keep := tx.bad[:0]
				for _, b := range tx.bad {
					if b < tx.sps[j].idx {
						keep = append(keep, b)
					} else {
						tx.undone = append(tx.undone, b)
					}
				}
				tx.bad = keep
				tx.sps = tx.sps[:j+1]
			} else if tx != nil {
				tx.bad = append(tx.bad, i)
			}
		case "release":
			if j := spIdx(); tx != nil && okRes && j >= 0 {
				tx.sps = tx.sps[:j]
			} else if tx != nil && !okRes {
				tx.bad = append(tx.bad, i)
			}
		case "write":
			if tx == nil {
				v.outside = append(v.outside, i)
				if okRes && srvRb[e.Conn] {
					v.autocommit = append(v.autocommit, i)
				}
			} else if okRes {
				tx.okWrites++
			} else {
				tx.bad = append(tx.bad, i)
			}
		default:
			if tx != nil && !okRes {
				tx.bad = append(tx.bad, i)
			}
		}
	}
	return v
}

// c18Tolerated: failures the adapter code explicitly handles and continues after. Only a real
// unique violation (Res "dup": MySQL 1062, PostgreSQL 23505) qualifies, never another failure of
// the same statement (generic error, deadlock, lock wait timeout, foreign key, cancel, 25P02):
//   - duplicate key on INSERT INTO subscriptions: createSubscription turns it into an UPDATE
//     (re-subscription / undelete);
//   - duplicate key on INSERT INTO usertags in UserUpdateTags without reset: addTags(ignoreDups=true).
func c18Tolerated(c *c18Case, e c18Ev) bool {
	if e.Res != "dup" || !e.Ins {
		return false
	}
	up := strings.ToUpper(e.Text)
	if strings.Contains(up, "INSERT INTO SUBSCRIPTIONS") {
		return true
	}
	if c.Op == "UserUpdateTags" && !c.A.IsReset && strings.Contains(up, "INSERT INTO USERTAGS") {
		return true
	}
	return false
}

func c18Sig(what string, c *c18Case, k int, kind string) string {
	if k == 0 {
		kind = "none"
	}
	return fmt.Sprintf("%s:%s:%s:k=%d:%s", what, c18AdapterName, c.Op, k, kind)
}

func c18TraceStrings(evs []c18Ev) []string {
	out := make([]string, len(evs))
	for i, e := range evs {
		out[i] = e.String()
	}
	return out
}

// c18Judge applies the transaction-bracket invariant to one run.
func c18Judge(c *c18Case, k int, kind string, r c18RunRes) *kit.Viol {
	op := c18Ops[c.Op]
	v := c18Walk(r.Evs)
	tr := strings.Join(c18TraceStrings(r.Evs), "\n    ")
	ret := fmt.Sprintf("returned error: %v", r.Err)
	if r.Panic != "" {
		ret = "PANICKED: " + r.Panic
	}
	mk := func(what, why string) *kit.Viol {
		return kit.V(c18Sig(what, c, k, kind), "%s %s k=%d kind=%s: %s; %s; statement trace:\n    %s", c18AdapterName, c.Op, k, kind, why, ret, tr)
	}
	// (4)/(2) no transaction may be left open when the call returns
	for _, tx := range v.txs {
		if tx.end == "" {
			return mk("open-tx", fmt.Sprintf("the transaction on connection %d is still open after the call returned (no COMMIT, no ROLLBACK, connection alive)", tx.conn))
		}
	}
	// (2) after the server has rolled back the transaction (MySQL deadlock victim) nothing of the
	// operation may be executed any more: a write sent then is committed on its own
	if len(v.autocommit) > 0 {
		return mk("autocommit-after-server-rollback", fmt.Sprintf("the server had rolled back the whole transaction (deadlock victim), the statement sent afterwards ran in autocommit mode and is committed on its own: %s", r.Evs[v.autocommit[0]]))
	}
	if op.Multi {
		// (1) every data-modifying statement inside one bracket on one connection
		if len(v.outside) > 0 {
			return mk("write-outside-tx", fmt.Sprintf("data-modifying statement outside any transaction: %s", r.Evs[v.outside[0]]))
		}
		withWrites := 0
		for _, tx := range v.txs {
			if tx.okWrites > 0 {
				withWrites++
			}
		}
		if withWrites > 1 {
			return mk("split-tx", "the writes of one operation are spread over several transactions")
		}
	}
	// (2) a transaction containing a failed, not tolerated statement must not be committed
	commits := 0
	for _, tx := range v.txs {
		if tx.end != "commit" {
			continue
		}
		commits++
		for _, b := range tx.bad {
			if !c18Tolerated(c, r.Evs[b]) {
				return mk("commit-after-failure", fmt.Sprintf("statement failed (%s) and the transaction was committed nevertheless", r.Evs[b]))
			}
		}
		// ... and going back to a savepoint does not make a failure acceptable: what the failed
		// statement was to write is missing from the committed transaction. Only the documented
		// "duplicate key, do an UPDATE instead" continuation is entitled to that.
		for _, b := range tx.undone {
			if !c18Tolerated(c, r.Evs[b]) {
				return mk("commit-after-undone-failure", fmt.Sprintf("statement failed (%s), the transaction was revived with ROLLBACK TO SAVEPOINT and committed without it", r.Evs[b]))
			}
		}
	}
	if r.Panic != "" {
		return nil // judged on the trace only; reported through the panic class
	}
	// (2)/(3) the error must reach the caller: nil means "took full effect"
	if r.Err == nil {
		if op.Multi {
			if commits != 1 {
				what := "nil-without-commit"
				if len(v.failed) > 0 {
					what = "swallowed-error"
				}
				return mk(what, fmt.Sprintf("the call returned nil but %d transactions were committed", commits))
			}
			for _, f := range v.failed {
				if !c18Tolerated(c, r.Evs[f]) {
					return mk("swallowed-error", fmt.Sprintf("statement failed (%s) but the call returned nil", r.Evs[f]))
				}
			}
		} else {
			for _, f := range v.failed {
				if !c18Tolerated(c, r.Evs[f]) {
					return mk("swallowed-error", fmt.Sprintf("statement failed (%s) but the call returned nil", r.Evs[f]))
				}
			}
		}
	}
	return nil
}

func c18KBucket(k int) string {
	switch {
	case k == 0:
		return "k:none"
	case k == 1:
		return "k:1"
	case k == 2:
		return "k:2"
	case k <= 4:
		return "k:3-4"
	case k <= 8:
		return "k:5-8"
	}
	return "k:9+"
}

func c18Outcome(evs []c18Ev) string {
	txs := c18Brackets(evs)
	if len(txs) == 0 {
		return "end:no-tx"
	}
	last := txs[len(txs)-1]
	if last.end == "" {
		return "end:open"
	}
	return "end:" + last.end
}

// c18DryMemo caches the fault-free run of the most recent scenarios (pure function of the key).
var c18DryMemo = struct {
	sync.Mutex
	m map[uint64]c18RunRes
}{m: map[uint64]c18RunRes{}}

func c18Dry(c *c18Case) c18RunRes {
	kc := c.key()
	kc.K, kc.Kind = 0, ""
	h := kit.Hash(kc)
	c18DryMemo.Lock()
	r, ok := c18DryMemo.m[h]
	c18DryMemo.Unlock()
	if ok {
		return r
	}
	r = c18Run(c, 0, "")
	c18DryMemo.Lock()
	if len(c18DryMemo.m) > 4096 {
		c18DryMemo.m = map[uint64]c18RunRes{}
	}
	c18DryMemo.m[h] = r
	c18DryMemo.Unlock()
	return r
}

// positions of a fault-free trace: index = position-1
func c18Positions(evs []c18Ev) []c18Ev {
	var out []c18Ev
	for _, e := range evs {
		if e.Pos > 0 {
			out = append(out, e)
		}
	}
	return out
}

// c18Exec runs and judges one case. The returned trace is for display only.
func c18Exec(c *c18Case) (kit.Outcome, []string) {
	if _, ok := c18Ops[c.Op]; !ok {
		return kit.Outcome{Skip: true}, nil
	}
	o := kit.Outcome{Classes: []string{"op:" + c.Op, c18KBucket(c.K)}}
	dry := c18Dry(c)
	if dry.OpenFn != "" || dry.Hang {
		o.Viol = kit.V("harness:"+c18AdapterName, "harness problem in fault-free run: open=%q hang=%v", dry.OpenFn, dry.Hang)
		return o, c18TraceStrings(dry.Evs)
	}
	if dry.Panic != "" {
		o.Classes = append(o.Classes, "panic-faultfree:"+c.Op)
	}
	if v := c18Judge(c, 0, "", dry); v != nil {
		o.Viol = v
		return o, c18TraceStrings(dry.Evs)
	}
	pos := c18Positions(dry.Evs)
	if c.K == 0 {
		o.Classes = append(o.Classes, "kind:none", "faultfree-"+c18Outcome(dry.Evs))
		if dry.Err != nil {
			o.Classes = append(o.Classes, "faultfree-returns-error")
		}
		return o, c18TraceStrings(dry.Evs)
	}
	if c.K < 0 || c.K > len(pos) || !c18KindApplies(c.Kind, pos[c.K-1]) {
		o.Skip = true
		return o, nil
	}
	r := c18Run(c, c.K, c.Kind)
	tr := c18TraceStrings(r.Evs)
	if r.OpenFn != "" || r.Hang {
		o.Viol = kit.V("harness:"+c18AdapterName, "harness problem in faulted run: open=%q hang=%v trace=%v", r.OpenFn, r.Hang, tr)
		return o, tr
	}
	fi := -1
	for i, e := range r.Evs {
		if e.Fault {
			fi = i
		}
	}
	if fi < 0 {
		o.Skip = true // cannot happen: the prefix before k is identical to the fault-free run
		return o, tr
	}
	for _, e := range r.Evs[:fi] {
		if e.Cls == "write" && (e.Res == "ok" || strings.HasPrefix(e.Res, "ok ")) {
			o.NonTrivial = c.K > 1
		}
	}
	o.Classes = append(o.Classes, "kind:"+c.Kind, "at:"+pos[c.K-1].Cls, c18Outcome(r.Evs))
	if r.Panic != "" {
		o.Classes = append(o.Classes, "panic:"+c.Op)
	}
	if r.Err == nil && r.Panic == "" {
		// the call returned nil although statement k failed: legitimate only for the tolerated
		// failures (c18Tolerated) — the class names the statement so that this is visible
		w := strings.Fields(r.Evs[fi].Text)
		if len(w) > 3 {
			w = w[:3]
		}
		for i := range w {
			if j := strings.IndexByte(w[i], '('); j > 0 {
				w[i] = w[i][:j]
			}
		}
		o.Classes = append(o.Classes, "nil-despite-fault:"+c.Kind+"@"+strings.Join(w, " "))
	}
	for _, tx := range c18Brackets(r.Evs) {
		if tx.end == "commit" && r.Err != nil {
			// not demanded either way by the statement (the failure was a tolerated one or hit the
			// COMMIT of a stalled run); made visible in the histogram
			o.Classes = append(o.Classes, "note:error-returned-after-commit")
		}
	}
	if c.Kind == "stall" {
		o.Viol = c18JudgeStall(c, r, r.Evs[fi])
		return o, tr
	}
	o.Viol = c18Judge(c, c.K, c.Kind, r)
	return o, tr
}

// c18JudgeStall: statement k was answered only after the transaction deadline (sql_timeout=1).
// Demanded: no transaction stays open; nil is returned only with exactly one successful COMMIT;
// an error return goes with no COMMIT at all — except when the stalled statement is the COMMIT
// itself, where the client cannot know the outcome.
func c18JudgeStall(c *c18Case, r c18RunRes, stalled c18Ev) *kit.Viol {
	op := c18Ops[c.Op]
	v := c18Walk(r.Evs)
	tr := strings.Join(c18TraceStrings(r.Evs), "\n    ")
	mk := func(what, why string) *kit.Viol {
		return kit.V(c18Sig(what, c, c.K, "stall"), "%s %s k=%d statement answered %v late (sql_timeout=1): %s; returned error: %v panic=%q; statement trace:\n    %s",
			c18AdapterName, c.Op, c.K, c18StallFor, why, r.Err, r.Panic, tr)
	}
	commits := 0
	for _, tx := range v.txs {
		if tx.end == "" {
			return mk("open-tx-after-deadline", fmt.Sprintf("the transaction on connection %d is still open 10 s after the call returned", tx.conn))
		}
		if tx.end == "commit" {
			commits++
		}
	}
	if r.Panic != "" || !op.Multi {
		return nil
	}
	if len(v.outside) > 0 {
		return mk("write-outside-tx", fmt.Sprintf("data-modifying statement outside any transaction: %s", r.Evs[v.outside[0]]))
	}
	if r.Err == nil && commits != 1 {
		return mk("swallowed-deadline", fmt.Sprintf("the call returned nil but %d transactions were committed", commits))
	}
	if r.Err != nil && commits > 0 && stalled.Cls != "commit" {
		return mk("commit-despite-deadline-error", "an error was returned although the transaction was committed")
	}
	return nil
}

// ------------------------------------------------------------------ operation catalogue

type c18Op struct {
	Name  string
	Multi bool // transactional multi-statement operation (property C18 proper)
	Gen   func(rt *rapid.T) c18Args
	Run   func(a dbi.Adapter, x *c18Args) error
	Enum  []c18Args // argument variants for the full enumeration
}

func c18Uid(n uint64) t.Uid { return t.Uid(n) }

func c18Sub(user uint64, topic string, owner bool) *t.Subscription {
	s := &t.Subscription{User: c18Uid(user).String(), Topic: topic, ModeWant: t.ModeCPublic, ModeGiven: t.ModeCPublic, Private: map[string]any{"n": 1}}
	if owner {
		s.ModeWant, s.ModeGiven = t.ModeCFull, t.ModeCFull
	}
	s.CreatedAt, s.UpdatedAt = c18T0, c18T0
	return s
}

var c18TagPool = []string{"aa", "bb", "cc", "dd"}

func c18GenTags(rt *rapid.T, label string, min, max int) []string {
	n := rapid.IntRange(min, max).Draw(rt, label+"N")
	var out []string
	for i := 0; i < n; i++ {
		out = append(out, c18TagPool[(rapid.IntRange(0, 3).Draw(rt, label)+i)%4])
	}
	return out
}

func c18GenU(rt *rapid.T, label string) uint64 { return uint64(rapid.IntRange(1, 9).Draw(rt, label)) }

func c18GenRanges(rt *rapid.T) [][2]int {
	shape := rapid.IntRange(0, 3).Draw(rt, "rshape")
	switch shape {
	case 0: // one range
		lo := rapid.IntRange(1, 20).Draw(rt, "lo")
		return [][2]int{{lo, lo + rapid.IntRange(1, 3).Draw(rt, "len")}}
	case 1: // one single id
		return [][2]int{{rapid.IntRange(1, 20).Draw(rt, "lo"), 0}}
	}
	n := rapid.IntRange(2, 3).Draw(rt, "nr")
	var out [][2]int
	lo := 1
	for i := 0; i < n; i++ {
		lo += rapid.IntRange(1, 4).Draw(rt, "gap")
		if shape == 2 || rapid.Bool().Draw(rt, "single") {
			out = append(out, [2]int{lo, 0})
			lo++
		} else {
			l := rapid.IntRange(1, 3).Draw(rt, "len")
			out = append(out, [2]int{lo, lo + l})
			lo += l
		}
	}
	return out
}

func c18DelMsg(x *c18Args) *t.DelMessage {
	if x.NilDel {
		return nil
	}
	d := &t.DelMessage{Topic: x.Topic, DelId: 3}
	if x.Soft {
		d.DeletedFor = c18Uid(x.U).String()
	}
	for _, r := range x.Ranges {
		d.SeqIdRanges = append(d.SeqIdRanges, t.Range{Low: r[0], Hi: r[1]})
	}
	d.CreatedAt, d.UpdatedAt = c18T0, c18T0
	return d
}

var c18OpList = []*c18Op{
	{Name: "UserCreate", Multi: true,
		Gen: func(rt *rapid.T) c18Args { return c18Args{U: c18GenU(rt, "u"), Tags: c18GenTags(rt, "tag", 0, 3)} },
		Run: func(a dbi.Adapter, x *c18Args) error {
			u := &t.User{Tags: x.Tags, Public: map[string]any{"fn": "x"}}
			u.SetUid(c18Uid(x.U))
			u.CreatedAt, u.UpdatedAt = c18T0, c18T0
			return a.UserCreate(u)
		},
		Enum: []c18Args{{U: 1}, {U: 2, Tags: []string{"aa"}}, {U: 3, Tags: []string{"aa", "bb", "cc"}}}},
	{Name: "UserDelete", Multi: true,
		Gen:  func(rt *rapid.T) c18Args { return c18Args{U: c18GenU(rt, "u"), Hard: rapid.Bool().Draw(rt, "hard")} },
		Run:  func(a dbi.Adapter, x *c18Args) error { return a.UserDelete(c18Uid(x.U), x.Hard) },
		Enum: []c18Args{{U: 1, Hard: true}, {U: 1}}},
	{Name: "UserUpdate", Multi: true,
		Gen: func(rt *rapid.T) c18Args {
			x := c18Args{U: c18GenU(rt, "u"), State: rapid.SampledFrom([]int{0, 0, 1, 1, 2}).Draw(rt, "state"), HasTags: rapid.Bool().Draw(rt, "hasTags")}
			if x.HasTags {
				x.Tags = c18GenTags(rt, "tag", 0, 3)
			}
			return x
		},
		Run: func(a dbi.Adapter, x *c18Args) error {
			upd := map[string]any{"UpdatedAt": c18T0}
			switch x.State {
			case 1:
				upd["State"], upd["StateAt"] = t.StateSuspended, c18T0
			case 2:
				upd["State"] = 10 // not a types.ObjState: topicStateForUser answers ErrMalformed after the first UPDATE
			}
			if x.HasTags {
				upd["Tags"] = t.StringSlice(append([]string{}, x.Tags...))
			}
			return a.UserUpdate(c18Uid(x.U), upd)
		},
		Enum: []c18Args{{U: 1}, {U: 1, State: 1}, {U: 1, State: 2}, {U: 1, HasTags: true}, {U: 1, HasTags: true, Tags: []string{"aa", "bb"}},
			{U: 1, State: 1, HasTags: true, Tags: []string{"aa", "bb"}}}},
	{Name: "UserUpdateTags", Multi: true,
		Gen: func(rt *rapid.T) c18Args {
			x := c18Args{U: c18GenU(rt, "u"), IsReset: rapid.Bool().Draw(rt, "isReset")}
			if x.IsReset {
				x.Reset = c18GenTags(rt, "reset", 0, 3)
			}
			x.Add = c18GenTags(rt, "add", 0, 3)
			x.Rem = c18GenTags(rt, "rem", 0, 2)
			return x
		},
		Run: func(a dbi.Adapter, x *c18Args) error {
			var reset []string
			if x.IsReset {
				reset = append([]string{}, x.Reset...)
			}
			_, err := a.UserUpdateTags(c18Uid(x.U), x.Add, x.Rem, reset)
			return err
		},
		Enum: []c18Args{{U: 1, Add: []string{"aa", "bb"}}, {U: 1, Add: []string{"aa"}, Rem: []string{"cc", "dd"}}, {U: 1, Rem: []string{"cc"}},
			{U: 1, IsReset: true, Reset: []string{"aa", "bb"}}, {U: 1, IsReset: true}, {U: 1}}},
	{Name: "TopicCreate", Multi: true,
		Gen: func(rt *rapid.T) c18Args {
			return c18Args{U: c18GenU(rt, "u"), Topic: "grpAbc", Tags: c18GenTags(rt, "tag", 0, 3)}
		},
		Run: func(a dbi.Adapter, x *c18Args) error {
			tp := &t.Topic{ObjHeader: t.ObjHeader{Id: x.Topic}, TouchedAt: c18T0, Owner: c18Uid(x.U).String(), Tags: x.Tags, Public: map[string]any{"fn": "g"}}
			tp.CreatedAt, tp.UpdatedAt = c18T0, c18T0
			return a.TopicCreate(tp)
		},
		Enum: []c18Args{{U: 1, Topic: "grpAbc"}, {U: 1, Topic: "grpAbc", Tags: []string{"aa", "bb"}}}},
	{Name: "TopicCreateP2P", Multi: true,
		Gen: func(rt *rapid.T) c18Args {
			return c18Args{U: c18GenU(rt, "u"), U2: c18GenU(rt, "u2") + 10, Topic: "p2pAbcDef",
				Owners: []bool{rapid.IntRange(0, 5).Draw(rt, "o1") == 0, rapid.IntRange(0, 5).Draw(rt, "o2") == 0}}
		},
		Run: func(a dbi.Adapter, x *c18Args) error {
			o := append(append([]bool{}, x.Owners...), false, false)
			return a.TopicCreateP2P(c18Sub(x.U, x.Topic, o[0]), c18Sub(x.U2, x.Topic, o[1]))
		},
		Enum: []c18Args{{U: 1, U2: 12, Topic: "p2pAbcDef"}, {U: 1, U2: 12, Topic: "p2pAbcDef", Owners: []bool{true, false}}}},
	{Name: "TopicShare", Multi: true,
		Gen: func(rt *rapid.T) c18Args {
			n := rapid.IntRange(1, 3).Draw(rt, "nsubs")
			x := c18Args{U: c18GenU(rt, "u"), Topic: "grpAbc"}
			for i := 0; i < n; i++ {
				x.Owners = append(x.Owners, rapid.IntRange(0, 3).Draw(rt, "owner") == 0)
			}
			return x
		},
		Run: func(a dbi.Adapter, x *c18Args) error {
			var subs []*t.Subscription
			for i, o := range x.Owners {
				subs = append(subs, c18Sub(x.U+uint64(i), x.Topic, o))
			}
			return a.TopicShare(subs)
		},
		Enum: []c18Args{{U: 1, Topic: "grpAbc", Owners: []bool{false}}, {U: 1, Topic: "grpAbc", Owners: []bool{true}},
			{U: 1, Topic: "grpAbc", Owners: []bool{false, false, false}}, {U: 1, Topic: "grpAbc", Owners: []bool{false, true}}}},
	{Name: "TopicDelete", Multi: true,
		Gen: func(rt *rapid.T) c18Args {
			return c18Args{Topic: "grpAbc", Chan: rapid.Bool().Draw(rt, "chan"), Hard: rapid.Bool().Draw(rt, "hard")}
		},
		Run:  func(a dbi.Adapter, x *c18Args) error { return a.TopicDelete(x.Topic, x.Chan, x.Hard) },
		Enum: []c18Args{{Topic: "grpAbc", Hard: true}, {Topic: "grpAbc", Hard: true, Chan: true}, {Topic: "grpAbc"}, {Topic: "grpAbc", Chan: true}}},
	{Name: "TopicUpdate", Multi: true,
		Gen: func(rt *rapid.T) c18Args {
			x := c18Args{Topic: "grpAbc", HasTags: rapid.Bool().Draw(rt, "hasTags")}
			if x.HasTags {
				x.Tags = c18GenTags(rt, "tag", 0, 3)
			}
			return x
		},
		Run: func(a dbi.Adapter, x *c18Args) error {
			upd := map[string]any{"UpdatedAt": c18T0}
			if x.HasTags {
				upd["Tags"] = t.StringSlice(append([]string{}, x.Tags...))
			}
			return a.TopicUpdate(x.Topic, upd)
		},
		Enum: []c18Args{{Topic: "grpAbc"}, {Topic: "grpAbc", HasTags: true}, {Topic: "grpAbc", HasTags: true, Tags: []string{"aa", "bb"}}}},
	{Name: "SubsUpdate", Multi: true,
		Gen: func(rt *rapid.T) c18Args {
			return c18Args{U: c18GenU(rt, "u"), Topic: "grpAbc", AllSubs: rapid.Bool().Draw(rt, "all")}
		},
		Run: func(a dbi.Adapter, x *c18Args) error {
			uid := c18Uid(x.U)
			if x.AllSubs {
				uid = t.ZeroUid
			}
			return a.SubsUpdate(x.Topic, uid, map[string]any{"ReadSeqId": 3})
		},
		Enum: []c18Args{{U: 1, Topic: "grpAbc"}, {U: 1, Topic: "grpAbc", AllSubs: true}}},
	{Name: "SubsDelete", Multi: true,
		Gen:  func(rt *rapid.T) c18Args { return c18Args{U: c18GenU(rt, "u"), Topic: "grpAbc"} },
		Run:  func(a dbi.Adapter, x *c18Args) error { return a.SubsDelete(x.Topic, c18Uid(x.U)) },
		Enum: []c18Args{{U: 1, Topic: "grpAbc"}}},
	{Name: "SubsDelForUser", Multi: true,
		Gen: func(rt *rapid.T) c18Args { return c18Args{U: c18GenU(rt, "u"), Hard: rapid.Bool().Draw(rt, "hard")} },
		Run: func(a dbi.Adapter, x *c18Args) error {
			// not part of the Adapter interface, but an exported transactional method of both SQL adapters
			return a.(interface{ SubsDelForUser(t.Uid, bool) error }).SubsDelForUser(c18Uid(x.U), x.Hard)
		},
		Enum: []c18Args{{U: 1, Hard: true}, {U: 1}}},
	{Name: "MessageDeleteList", Multi: true,
		Gen: func(rt *rapid.T) c18Args {
			x := c18Args{U: c18GenU(rt, "u"), Topic: "grpAbc"}
			if rapid.IntRange(0, 7).Draw(rt, "nil") == 0 {
				x.NilDel = true
				return x
			}
			x.Soft = rapid.Bool().Draw(rt, "soft")
			x.Ranges = c18GenRanges(rt)
			return x
		},
		Run: func(a dbi.Adapter, x *c18Args) error { return a.MessageDeleteList(x.Topic, c18DelMsg(x)) },
		Enum: []c18Args{
			{U: 1, Topic: "grpAbc", Ranges: [][2]int{{3, 6}}}, {U: 1, Topic: "grpAbc", Ranges: [][2]int{{3, 0}}},
			{U: 1, Topic: "grpAbc", Ranges: [][2]int{{3, 5}, {7, 0}, {9, 11}}}, {U: 1, Topic: "grpAbc", Ranges: [][2]int{{3, 0}, {7, 0}}},
			{U: 1, Topic: "grpAbc", Soft: true, Ranges: [][2]int{{3, 6}}}, {U: 1, Topic: "grpAbc", Soft: true, Ranges: [][2]int{{3, 0}}},
			{U: 1, Topic: "grpAbc", Soft: true, Ranges: [][2]int{{3, 5}, {7, 0}, {9, 11}}}, {U: 1, Topic: "grpAbc", Soft: true, Ranges: [][2]int{{3, 0}, {7, 0}}},
			{U: 1, Topic: "grpAbc", NilDel: true}}},
	{Name: "DeviceUpsert", Multi: true,
		Gen: func(rt *rapid.T) c18Args { return c18Args{U: c18GenU(rt, "u"), DevID: "dev1"} },
		Run: func(a dbi.Adapter, x *c18Args) error {
			return a.DeviceUpsert(c18Uid(x.U), &t.DeviceDef{DeviceId: x.DevID, Platform: "web", LastSeen: c18T0, Lang: "en"})
		},
		Enum: []c18Args{{U: 1, DevID: "dev1"}}},
	{Name: "DeviceDelete", Multi: true,
		Gen: func(rt *rapid.T) c18Args {
			return c18Args{U: c18GenU(rt, "u"), DevID: rapid.SampledFrom([]string{"", "dev1"}).Draw(rt, "dev")}
		},
		Run:  func(a dbi.Adapter, x *c18Args) error { return a.DeviceDelete(c18Uid(x.U), x.DevID) },
		Enum: []c18Args{{U: 1, DevID: "dev1"}, {U: 1}}},
	{Name: "CredUpsert", Multi: true,
		Gen: func(rt *rapid.T) c18Args {
			return c18Args{U: c18GenU(rt, "u"), Method: "email", Value: "a@example.com", Done: rapid.Bool().Draw(rt, "done")}
		},
		Run: func(a dbi.Adapter, x *c18Args) error {
			cr := &t.Credential{User: c18Uid(x.U).String(), Method: x.Method, Value: x.Value, Resp: "123456", Done: x.Done}
			cr.CreatedAt, cr.UpdatedAt = c18T0, c18T0
			_, err := a.CredUpsert(cr)
			return err
		},
		Enum: []c18Args{{U: 1, Method: "email", Value: "a@example.com"}, {U: 1, Method: "email", Value: "a@example.com", Done: true}}},
	{Name: "CredDel", Multi: true,
		Gen: func(rt *rapid.T) c18Args {
			x := c18Args{U: c18GenU(rt, "u")}
			switch rapid.IntRange(0, 2).Draw(rt, "shape") {
			case 1:
				x.Method = "email"
			case 2:
				x.Method, x.Value = "email", "a@example.com"
			}
			return x
		},
		Run:  func(a dbi.Adapter, x *c18Args) error { return a.CredDel(c18Uid(x.U), x.Method, x.Value) },
		Enum: []c18Args{{U: 1}, {U: 1, Method: "email"}, {U: 1, Method: "email", Value: "a@example.com"}}},
	{Name: "FileFinishUpload", Multi: true,
		Gen: func(rt *rapid.T) c18Args {
			return c18Args{U: c18GenU(rt, "u"), Success: rapid.Bool().Draw(rt, "success")}
		},
		Run: func(a dbi.Adapter, x *c18Args) error {
			fd := &t.FileDef{User: c18Uid(x.U).String(), MimeType: "image/png", Location: "loc"}
			fd.SetUid(c18Uid(x.U + 100))
			fd.CreatedAt, fd.UpdatedAt = c18T0, c18T0
			_, err := a.FileFinishUpload(fd, x.Success, 1234)
			return err
		},
		Enum: []c18Args{{U: 1, Success: true}, {U: 1}}},
	{Name: "FileDeleteUnused", Multi: true,
		Gen: func(rt *rapid.T) c18Args {
			return c18Args{Older: rapid.Bool().Draw(rt, "older"), Limit: rapid.IntRange(0, 2).Draw(rt, "limit")}
		},
		Run: func(a dbi.Adapter, x *c18Args) error {
			var older time.Time
			if x.Older {
				older = c18T0
			}
			_, err := a.FileDeleteUnused(older, x.Limit)
			return err
		},
		Enum: []c18Args{{}, {Older: true, Limit: 2}}},
	{Name: "FileLinkAttachments", Multi: true,
		Gen: func(rt *rapid.T) c18Args {
			return c18Args{U: c18GenU(rt, "u"), Topic: "grpAbc", LinkBy: rapid.SampledFrom([]string{"msg", "topic", "user"}).Draw(rt, "linkBy"),
				NFids: rapid.IntRange(1, 3).Draw(rt, "nfids")}
		},
		Run: func(a dbi.Adapter, x *c18Args) error {
			var fids []string
			for i := 0; i < x.NFids; i++ {
				fids = append(fids, c18Uid(uint64(200+i)).String())
			}
			switch x.LinkBy {
			case "msg":
				return a.FileLinkAttachments("", t.ZeroUid, c18Uid(77), fids)
			case "topic":
				return a.FileLinkAttachments(x.Topic, t.ZeroUid, t.ZeroUid, fids)
			}
			return a.FileLinkAttachments("", c18Uid(x.U), t.ZeroUid, fids)
		},
		Enum: []c18Args{{U: 1, LinkBy: "msg", NFids: 1}, {U: 1, LinkBy: "msg", NFids: 3}, {U: 1, Topic: "grpAbc", LinkBy: "topic", NFids: 2}, {U: 1, LinkBy: "user", NFids: 1}}},

	// Single-statement operations (not transactional in the adapters). They are not C18 proper:
	// only "the failure is reported" and "no transaction left open" are demanded of them, and
	// they are never counted as non-trivial. They are here so that a panic on the error path
	// (AuthUpdRecord) shows up in the class histogram.
	{Name: "AuthUpdRecord",
		Gen: func(rt *rapid.T) c18Args { return c18Args{U: c18GenU(rt, "u")} },
		Run: func(a dbi.Adapter, x *c18Args) error {
			return a.AuthUpdRecord(c18Uid(x.U), "basic", "alice", auth.LevelAuth, []byte("secret"), time.Time{})
		},
		Enum: []c18Args{{U: 1}}},
	{Name: "AuthAddRecord",
		Gen: func(rt *rapid.T) c18Args { return c18Args{U: c18GenU(rt, "u")} },
		Run: func(a dbi.Adapter, x *c18Args) error {
			return a.AuthAddRecord(c18Uid(x.U), "basic", "alice", auth.LevelAuth, []byte("secret"), time.Time{})
		},
		Enum: []c18Args{{U: 1}}},
	{Name: "MessageSave",
		Gen: func(rt *rapid.T) c18Args { return c18Args{U: c18GenU(rt, "u"), Topic: "grpAbc"} },
		Run: func(a dbi.Adapter, x *c18Args) error {
			m := &t.Message{SeqId: 5, Topic: x.Topic, From: c18Uid(x.U).String(), Content: "hello"}
			m.CreatedAt, m.UpdatedAt = c18T0, c18T0
			return a.MessageSave(m)
		},
		Enum: []c18Args{{U: 1, Topic: "grpAbc"}}},
	{Name: "CredConfirm",
		Gen:  func(rt *rapid.T) c18Args { return c18Args{U: c18GenU(rt, "u"), Method: "email"} },
		Run:  func(a dbi.Adapter, x *c18Args) error { return a.CredConfirm(c18Uid(x.U), x.Method) },
		Enum: []c18Args{{U: 1, Method: "email"}}},
}

var c18Ops = func() map[string]*c18Op {
	m := map[string]*c18Op{}
	for _, o := range c18OpList {
		m[o.Name] = o
	}
	return m
}()

// ------------------------------------------------------------------ generated check

func c18GenScript(rt *rapid.T) c18Script {
	var s c18Script
	if rapid.IntRange(0, 2).Draw(rt, "selOn") > 0 {
		s.Sel = []int{rapid.IntRange(0, 3).Draw(rt, "sel")}
	}
	na := rapid.IntRange(0, 4).Draw(rt, "affN")
	if na == 4 {
		na = 13
	}
	for i := 0; i < na; i++ {
		s.Aff = append(s.Aff, rapid.SampledFrom([]int{1, 1, 0, 2}).Draw(rt, "aff"))
	}
	if rapid.IntRange(0, 3).Draw(rt, "dupOn") == 0 {
		s.Dup = []int{rapid.IntRange(1, 4).Draw(rt, "dup")}
	}
	return s
}

// c18Pick draws an index in [0,n) almost uniformly. rapid's integer generators (IntRange,
// SampledFrom, Uint64) are deliberately biased towards small values and range ends — with them
// a third of all cases were "first operation of the catalogue, k = 1 or no fault". rapid.Bool
// is a fair coin, so twelve of them give a uniform 12-bit number; it still shrinks to index 0.
func c18Pick(rt *rapid.T, label string, n int) int {
	v := 0
	for i := 0; i < 12; i++ {
		if rapid.Bool().Draw(rt, label) {
			v |= 1 << i
		}
	}
	return v % n
}

func c18GenCase(rt *rapid.T) *c18Case {
	// transactional operations are drawn four times as often as the single-statement extras
	var names []string
	for _, o := range c18OpList {
		names = append(names, o.Name)
		if o.Multi {
			names = append(names, o.Name, o.Name, o.Name)
		}
	}
	c := &c18Case{Op: names[c18Pick(rt, "op", len(names))]}
	c.A = c18Ops[c.Op].Gen(rt)
	c.S = c18GenScript(rt)
	dry := c18Dry(c) // fault-free run, to learn the number of statements n
	pos := c18Positions(dry.Evs)
	if len(pos) == 0 {
		return c
	}
	// Fault position: 2..n (something may already have been written; weight 3 each), 1 (BEGIN
	// fails) or 0 (no fault at all).
	var cands []int
	for k := 2; k <= len(pos); k++ {
		cands = append(cands, k, k, k)
	}
	cands = append(cands, 1, 0)
	c.K = cands[c18Pick(rt, "kIdx", len(cands))]
	if c.K == 0 {
		return c
	}
	// err and dup twice as likely as each of the others that apply to the statement
	var kinds []string
	for _, kind := range c18AllKinds {
		if c18KindApplies(kind, pos[c.K-1]) {
			kinds = append(kinds, kind)
			if kind == "err" || kind == "dup" {
				kinds = append(kinds, kind)
			}
		}
	}
	c.Kind = kinds[c18Pick(rt, "kind", len(kinds))]
	return c
}

func c18Replay(tt *testing.T, r *kit.Run) bool {
	var rc c18Case
	ok, err := kit.ReplayCase(r.Unit, &rc)
	if !ok {
		return false
	}
	if kit.IsOtherUnit(err) {
		tt.Skip("replay file is for another unit")
	}
	if err != nil {
		tt.Fatalf("cannot load replay: %v", err)
	}
	rc.Trace = nil
	o, tr := c18Exec(&rc)
	r.Case(kit.Hash(rc.key()), o.NonTrivial, o.Classes...)
	if o.Skip {
		fmt.Printf("REPLAY-OK skipped: the case does not denote a valid fault position\n")
		return true
	}
	if o.Viol != nil {
		rc.Trace = tr
		if r.Violation(o.Viol, rc) {
			fmt.Printf("REPLAY-KNOWN sig=%s %s\n", o.Viol.Sig, o.Viol.Msg)
			return true
		}
		fmt.Printf("REPLAY-VIOLATION sig=%s %s\n", o.Viol.Sig, o.Viol.Msg)
		tt.Fatalf("violation %s: %s", o.Viol.Sig, o.Viol.Msg)
	}
	fmt.Printf("REPLAY-OK nontrivial=%v classes=%v\n    %s\n", o.NonTrivial, o.Classes, strings.Join(tr, "\n    "))
	return true
}

// c18Record books one executed case; it returns false when the test must fail.
func c18Record(r *kit.Run, c *c18Case, o kit.Outcome, tr []string) bool {
	if o.Skip {
		r.Skipped("invalid-fault-position")
		return true
	}
	r.Case(kit.Hash(c.key()), o.NonTrivial, o.Classes...)
	if o.NonTrivial && r.WantSample() {
		sc := *c
		sc.Trace = tr
		r.Sample(sc)
	}
	if o.Viol != nil {
		vc := *c
		vc.Trace = tr
		return r.Violation(o.Viol, vc)
	}
	return true
}

func c18RapidUnit(tt *testing.T, unit string) {
	r := kit.Begin("C18", unit)
	defer r.Flush()
	defer c18Cleanup()
	if c18Replay(tt, r) {
		return
	}
	rapid.Check(tt, func(rt *rapid.T) {
		c := c18GenCase(rt)
		o, tr := c18Exec(c)
		if !c18Record(r, c, o, tr) {
			rt.Fatalf("violation %s: %s", o.Viol.Sig, o.Viol.Msg)
		}
	})
}

// ------------------------------------------------------------------ full enumeration

// c18ScriptVariants derives result scripts from the fault-free default run of an argument
// variant: each UPDATE/DELETE answering 0 rows (one at a time, and all), each INSERT answering
// duplicate key (one at a time), each SELECT answering 0/1/3 rows; with pairs=true also all
// pairs of such deviations. Scripts whose fault-free trace has the same shape as an earlier
// one are dropped.
func c18ScriptVariants(op string, a c18Args, pairs bool) []c18Script {
	base := c18Case{Op: op, A: a}
	dry := c18Dry(&base)
	nSel, nAff, nIns := 0, 0, 0
	for _, e := range dry.Evs {
		switch {
		case e.Cls == "read":
			nSel++
		case e.Cls == "write" && e.Ins:
			nIns++
		case e.Cls == "write":
			nAff++
		}
	}
	// deviations may reveal further statements (e.g. the INSERT after "0 rows updated"): allow one more of each
	nAff++
	nIns++
	type dev struct {
		kind string
		i, v int
	}
	var devs []dev
	for i := 0; i < nSel; i++ {
		devs = append(devs, dev{"sel", i, 1}, dev{"sel", i, 3})
	}
	for i := 0; i < nAff; i++ {
		devs = append(devs, dev{"aff", i, 0})
	}
	for i := 0; i < nIns; i++ {
		devs = append(devs, dev{"dup", i + 1, 0})
	}
	apply := func(s c18Script, d dev) c18Script {
		switch d.kind {
		case "sel":
			for len(s.Sel) <= d.i {
				s.Sel = append(s.Sel, 0)
			}
			s.Sel = append([]int{}, s.Sel...)
			s.Sel[d.i] = d.v
		case "aff":
			for len(s.Aff) <= d.i {
				s.Aff = append(s.Aff, 1)
			}
			s.Aff = append([]int{}, s.Aff...)
			s.Aff[d.i] = d.v
		case "dup":
			s.Dup = append(append([]int{}, s.Dup...), d.i)
		}
		return s
	}
	out := []c18Script{{}}
	allZero := c18Script{}
	for i := 0; i < nAff; i++ {
		allZero.Aff = append(allZero.Aff, 0)
	}
	out = append(out, allZero)
	for _, d := range devs {
		out = append(out, apply(c18Script{}, d))
	}
	if pairs {
		for i, d1 := range devs {
			for _, d2 := range devs[i+1:] {
				if d1.kind == d2.kind && d1.i == d2.i {
					continue
				}
				out = append(out, apply(apply(c18Script{}, d1), d2))
			}
		}
	}
	// drop scripts that behave exactly like an earlier one (same fault-free trace shape)
	seen := map[string]bool{}
	var uniq []c18Script
	for _, s := range out {
		cc := c18Case{Op: op, A: a, S: s}
		d := c18Dry(&cc)
		var sb strings.Builder
		fmt.Fprintf(&sb, "nil=%v panic=%v;", d.Err == nil, d.Panic != "")
		for _, e := range d.Evs {
			res := e.Res
			if i := strings.IndexAny(res, " ="); i > 0 {
				res = res[:i] // "ok aff=0" -> "ok", "rows=3" -> "rows": only the shape of the trace matters
			}
			sb.WriteString(e.Cls + "/" + res + ";")
		}
		if !seen[sb.String()] {
			seen[sb.String()] = true
			uniq = append(uniq, s)
		}
	}
	return uniq
}

func c18EnumUnit(tt *testing.T, unit string) {
	r := kit.Begin("C18", unit)
	defer r.Flush()
	defer c18Cleanup()
	if c18Replay(tt, r) {
		return
	}
	var cases []*c18Case
	scenarios := 0
	for _, op := range c18OpList {
		for _, a := range op.Enum {
			for _, s := range c18ScriptVariants(op.Name, a, true) {
				scenarios++
				base := c18Case{Op: op.Name, A: a, S: s}
				pos := c18Positions(c18Dry(&base).Evs)
				b0 := base
				cases = append(cases, &b0)
				for k := 1; k <= len(pos); k++ {
					for _, kind := range c18AllKinds {
						if !c18KindApplies(kind, pos[k-1]) {
							continue
						}
						cc := base
						cc.K, cc.Kind = k, kind
						cases = append(cases, &cc)
					}
				}
			}
		}
	}
	total := len(cases)
	limit := kit.N(1 << 30)
	stride, off := 1, 0
	if total > limit {
		stride = (total + limit - 1) / limit
		seed, _ := strconv.Atoi(os.Getenv("VERIF_SEED"))
		off = seed % stride
	}
	ran := 0
	var sigs []string
	first := map[string]string{}
	wroteUnknown := false
	for i, c := range cases {
		if i%stride != off {
			continue
		}
		ran++
		o, tr := c18Exec(c)
		if o.Viol != nil {
			if _, dup := first[o.Viol.Sig]; !dup {
				first[o.Viol.Sig] = o.Viol.Msg
				sigs = append(sigs, o.Viol.Sig)
				b, _ := json.Marshal(c.key())
				fmt.Printf("C18-ENUM-VIOLATION sig=%s case=%s\n%s\n", o.Viol.Sig, b, o.Viol.Msg)
			}
			// Known findings are counted by the kit. Of the others only the first one (the
			// enumeration goes from simple to complex) is written as the replay file; the
			// enumeration then continues so that every signature is printed in one run.
			if r.IsKnown(o.Viol.Sig) || !wroteUnknown {
				if !r.IsKnown(o.Viol.Sig) {
					wroteUnknown = true
				}
				c18Record(r, c, o, tr)
				continue
			}
			o.Viol = nil
		}
		c18Record(r, c, o, tr)
	}
	r.Extra("scenarios", scenarios)
	r.Extra("enumerated_cases", total)
	r.Extra("executed_cases", ran)
	r.Extra("exhaustive", stride == 1)
	sort.Strings(sigs)
	var unknown []string
	for _, s := range sigs {
		if !r.IsKnown(s) {
			unknown = append(unknown, s)
		}
	}
	if len(unknown) > 0 {
		tt.Fatalf("%d violation signature(s) not listed as known: %v", len(unknown), unknown)
	}
}

// c18StallUnit: deadline expiry. Every position of the default scenario of every argument
// variant is stalled beyond sql_timeout once. Real time (c18StallFor per case) — the cases run
// concurrently, each on its own server and adapter; the quick tier only takes a small sample.
func c18StallUnit(tt *testing.T, unit string) {
	r := kit.Begin("C18", unit)
	defer r.Flush()
	defer c18Cleanup()
	if c18Replay(tt, r) {
		return
	}
	if kit.Tier() != "thorough" {
		r.Extra("quick_tier", "not run: real-time unit, thorough tier only")
		return
	}
	var cases []*c18Case
	for _, op := range c18OpList {
		for _, a := range op.Enum {
			base := c18Case{Op: op.Name, A: a}
			for k := range c18Positions(c18Dry(&base).Evs) {
				cc := base
				cc.K, cc.Kind = k+1, "stall"
				cases = append(cases, &cc)
			}
		}
	}
	total := len(cases)
	limit := kit.N(1 << 30)
	stride, off := 1, 0
	if total > limit {
		stride = (total + limit - 1) / limit
		seed, _ := strconv.Atoi(os.Getenv("VERIF_SEED"))
		off = seed % stride
	}
	type result struct {
		c  *c18Case
		o  kit.Outcome
		tr []string
	}
	var sel []*c18Case
	for i, c := range cases {
		if i%stride == off {
			sel = append(sel, c)
		}
	}
	results := make([]result, len(sel))
	sem := make(chan struct{}, 48)
	var wg sync.WaitGroup
	for i, c := range sel {
		wg.Add(1)
		sem <- struct{}{}
		go func(i int, c *c18Case) {
			defer wg.Done()
			defer func() { <-sem }()
			o, tr := c18Exec(c)
			results[i] = result{c, o, tr}
		}(i, c)
	}
	wg.Wait()
	var unknown []string
	wrote := false
	for _, x := range results { // booked in enumeration order, so the outcome does not depend on scheduling
		if x.o.Viol != nil {
			b, _ := json.Marshal(x.c.key())
			fmt.Printf("C18-STALL-VIOLATION sig=%s case=%s\n%s\n", x.o.Viol.Sig, b, x.o.Viol.Msg)
			if !r.IsKnown(x.o.Viol.Sig) {
				unknown = append(unknown, x.o.Viol.Sig)
				if wrote {
					x.o.Viol = nil
				}
				wrote = true
			}
		}
		c18Record(r, x.c, x.o, x.tr)
	}
	r.Extra("enumerated_cases", total)
	r.Extra("executed_cases", len(sel))
	r.Extra("exhaustive", stride == 1)
	if len(unknown) > 0 {
		tt.Fatalf("%d violation(s) not listed as known: %v", len(unknown), unknown)
	}
}

// c18ShowUnit is a development aid (not a registered unit): with C18_SHOW=1 it prints the
// fault-free statement trace of every enumeration scenario.
func c18ShowUnit(tt *testing.T) {
	if os.Getenv("C18_SHOW") == "" {
		tt.Skip("set C18_SHOW=1")
	}
	defer c18Cleanup()
	for _, op := range c18OpList {
		for _, a := range op.Enum {
			for _, s := range c18ScriptVariants(op.Name, a, true) {
				c := c18Case{Op: op.Name, A: a, S: s}
				d := c18Dry(&c)
				b, _ := json.Marshal(c)
				if os.Getenv("C18_SHOW") == "short" {
					var sh []string
					for _, e := range d.Evs {
						w := strings.Fields(e.Text)
						sh = append(sh, w[0]+":"+e.Res)
					}
					fmt.Printf("%s err=%v panic=%q open=%q %s\n", b, d.Err, d.Panic, d.OpenFn, strings.Join(sh, " | "))
					continue
				}
				fmt.Printf("%s\n   err=%v panic=%q open=%q\n   %s\n", b, d.Err, d.Panic, d.OpenFn, strings.Join(c18TraceStrings(d.Evs), "\n   "))
			}
		}
	}
}
