//go:build postgres
// +build postgres

package postgres

// C18, PostgreSQL side: an in-process fake PostgreSQL server built on pgproto3.Backend
// (simple query protocol; the adapter is opened with prefer_simple_protocol=true) on a unix
// socket `<private temp dir>/.s.PGSQL.5432`. The real pgx/pgxpool + adapter code run against
// it. What the server answers is decided by the shared scripted engine (c18Core, pg=true):
// as in PostgreSQL an error inside a transaction block puts the block into the aborted state
// (every further statement is refused with 25P02 until ROLLBACK / ROLLBACK TO SAVEPOINT of an
// established savepoint, and COMMIT of an aborted block answers ROLLBACK). Failed statements are
// answered with the SQLSTATE of c18WireErr (40P01 deadlock, 23503 foreign key, 57014 cancel, ...).

import (
	"fmt"
	"io"
	"log"
	"net"
	"os"
	"path/filepath"
	"strconv"
	"sync"
	"testing"
	"time"

	"github.com/jackc/pgproto3/v2"
	dbi "github.com/tinode/chat/server/db"
	"github.com/tinode/chat/server/store"
)

const c18AdapterName = "postgres"

func c18NewAdapter() dbi.Adapter { return &adapter{} }

func c18CloseAdapter(a dbi.Adapter, leaked bool) {
	if leaked {
		// pgxpool.Close blocks until every acquired connection is released; a transaction the
		// adapter forgot holds its connection for ever. Do not wait for it.
		go a.Close()
		return
	}
	a.Close()
}

type c18Srv struct {
	core *c18Core
	dir  string
	sock string
	port int
	l    net.Listener
	mu   sync.Mutex
	cs   map[net.Conn]struct{}
	wg   sync.WaitGroup
}

// One private temp dir per test process; every run listens on a fresh socket inside it
// (libpq convention: <dir>/.s.PGSQL.<port>, the "port" only selects the socket file).
var c18Tmp struct {
	sync.Mutex
	dir string
	n   int
}

func c18NextSock() (string, int, error) {
	c18Tmp.Lock()
	defer c18Tmp.Unlock()
	if c18Tmp.dir == "" {
		d, err := os.MkdirTemp("", "c18pg")
		if err != nil {
			return "", 0, err
		}
		c18Tmp.dir = d
	}
	c18Tmp.n++
	return c18Tmp.dir, 1 + c18Tmp.n%60000, nil
}

func c18Cleanup() {
	c18Tmp.Lock()
	defer c18Tmp.Unlock()
	if c18Tmp.dir != "" {
		os.RemoveAll(c18Tmp.dir)
		c18Tmp.dir = ""
	}
}

func c18StartServer() (*c18Srv, error) {
	dir, port, err := c18NextSock()
	if err != nil {
		return nil, err
	}
	s := &c18Srv{core: &c18Core{pg: true}, dir: dir, port: port, sock: filepath.Join(dir, ".s.PGSQL."+strconv.Itoa(port)), cs: map[net.Conn]struct{}{}}
	os.Remove(s.sock)
	s.l, err = net.Listen("unix", s.sock)
	if err != nil {
		return nil, err
	}
	s.wg.Add(1)
	go func() {
		defer s.wg.Done()
		for {
			c, err := s.l.Accept()
			if err != nil {
				return
			}
			s.mu.Lock()
			s.cs[c] = struct{}{}
			s.mu.Unlock()
			s.wg.Add(1)
			go func() {
				defer s.wg.Done()
				s.serve(c)
				s.mu.Lock()
				delete(s.cs, c)
				s.mu.Unlock()
			}()
		}
	}()
	return s, nil
}

func (s *c18Srv) config(timeout bool) string {
	to := ""
	if timeout {
		to = `,"sql_timeout":1`
	}
	return fmt.Sprintf(`{"dsn":"postgresql://u:p@/tinode?host=%s&port=%d&sslmode=disable&prefer_simple_protocol=true"%s}`, s.dir, s.port, to)
}

func (s *c18Srv) stop() {
	s.l.Close()
	s.mu.Lock()
	for c := range s.cs {
		c.Close()
	}
	s.mu.Unlock()
	s.wg.Wait()
	os.Remove(s.sock)
}

func (s *c18Srv) serve(c net.Conn) {
	defer c.Close()
	be := pgproto3.NewBackend(pgproto3.NewChunkReader(c), c)
	sm, err := be.ReceiveStartupMessage()
	if err != nil {
		return
	}
	if _, ok := sm.(*pgproto3.SSLRequest); ok {
		c.Write([]byte{'N'})
		if sm, err = be.ReceiveStartupMessage(); err != nil {
			return
		}
	}
	if _, ok := sm.(*pgproto3.StartupMessage); !ok {
		return // CancelRequest and the like
	}
	st := s.core.connOpen()
	defer s.core.connClosed(st)
	send := func(ms ...pgproto3.BackendMessage) {
		var buf []byte
		for _, m := range ms {
			buf, _ = m.Encode(buf)
		}
		c.Write(buf)
	}
	send(&pgproto3.AuthenticationOk{},
		&pgproto3.ParameterStatus{Name: "server_version", Value: "13.0"},
		&pgproto3.ParameterStatus{Name: "client_encoding", Value: "UTF8"},
		&pgproto3.ParameterStatus{Name: "standard_conforming_strings", Value: "on"},
		&pgproto3.BackendKeyData{ProcessID: uint32(st.id), SecretKey: 1},
		&pgproto3.ReadyForQuery{TxStatus: 'I'})
	for {
		m, err := be.Receive()
		if err != nil {
			return
		}
		switch q := m.(type) {
		case *pgproto3.Terminate:
			return
		case *pgproto3.Query:
			rep := s.core.stmt(st, q.String, 0)
			if rep.Stall {
				time.Sleep(c18StallFor)
			}
			rfq := &pgproto3.ReadyForQuery{TxStatus: rep.Tx}
			switch rep.Res {
			case "drop":
				return
			case "rolledback":
				send(&pgproto3.CommandComplete{CommandTag: []byte("ROLLBACK")}, rfq)
			case "rows":
				rd := &pgproto3.RowDescription{}
				for _, col := range rep.Cols {
					fd := pgproto3.FieldDescription{Name: []byte(col.Name), DataTypeOID: 25, DataTypeSize: -1, TypeModifier: -1}
					switch col.Typ {
					case 'b':
						fd.DataTypeOID, fd.DataTypeSize = 16, 1
					case 'i':
						fd.DataTypeOID, fd.DataTypeSize = 20, 8
					}
					rd.Fields = append(rd.Fields, fd)
				}
				msgs := []pgproto3.BackendMessage{rd}
				for _, row := range rep.Rows {
					dr := &pgproto3.DataRow{}
					for i, v := range row {
						if rep.Cols[i].Typ == 'b' {
							if v == "1" {
								v = "t"
							} else {
								v = "f"
							}
						}
						dr.Values = append(dr.Values, []byte(v))
					}
					msgs = append(msgs, dr)
				}
				tag := "SELECT " + strconv.Itoa(len(rep.Rows))
				if rep.Verb == "INSERT" { // INSERT ... RETURNING
					tag = "INSERT 0 " + strconv.Itoa(len(rep.Rows))
				}
				msgs = append(msgs, &pgproto3.CommandComplete{CommandTag: []byte(tag)}, rfq)
				send(msgs...)
			default:
				// a failed statement: the SQLSTATE a PostgreSQL server sends for this kind of failure
				// (XX000 generic, 23505 unique, 40P01 deadlock, 23503 foreign key, 57014 cancel,
				// 25P02 aborted block, 3B001 unknown savepoint, 25P01 not in a transaction block)
				send(&pgproto3.ErrorResponse{Severity: "ERROR", Code: c18WireErr(true, rep.Res).State, Message: c18WireErr(true, rep.Res).Msg}, rfq)
			case "ok":
				tag := rep.Verb
				switch rep.Verb {
				case "INSERT":
					tag = "INSERT 0 " + strconv.Itoa(rep.Aff)
				case "UPDATE", "DELETE":
					tag = rep.Verb + " " + strconv.Itoa(rep.Aff)
				}
				send(&pgproto3.CommandComplete{CommandTag: []byte(tag)}, rfq)
			}
			if rep.Stall {
				s.core.stallEnd()
			}
		default:
			send(&pgproto3.ErrorResponse{Severity: "ERROR", Code: "0A000", Message: fmt.Sprintf("c18 fake server: %T not supported (simple protocol only)", m)},
				&pgproto3.ReadyForQuery{TxStatus: st.tx})
		}
	}
}

// c18Boot initialises the store's uid generator (unexported, only reachable through
// store.Store.Open) once per process, against a throw-away fake server.
var c18BootOnce sync.Once

func c18Boot() {
	c18BootOnce.Do(func() {
		// createSubscription logs every failed SAVEPOINT/RELEASE through the std logger
		log.SetOutput(io.Discard)
		srv, err := c18StartServer()
		if err != nil {
			panic(err)
		}
		defer srv.stop()
		cfg := fmt.Sprintf(`{"uid_key":"la6YsO+bNX/+XIkOqc5Svw==","use_adapter":"postgres","adapters":{"postgres":%s}}`, srv.config(false))
		if err := store.Store.Open(1, []byte(cfg)); err != nil {
			panic("c18 boot: store.Open: " + err.Error())
		}
		store.Store.Close()
	})
}

func TestC18Postgres(tt *testing.T)      { c18RapidUnit(tt, "TestC18Postgres") }
func TestC18PostgresEnum(tt *testing.T)  { c18EnumUnit(tt, "TestC18PostgresEnum") }
func TestC18PostgresStall(tt *testing.T) { c18StallUnit(tt, "TestC18PostgresStall") }
func TestC18PostgresShow(tt *testing.T)  { c18ShowUnit(tt) }
