package main

// C12 (long-poll endpoint) — every request to the long-poll handler needs an API key signed with
// the server's salt, wherever the key is placed and whether or not the request names a live session.
// Generated: sequences of requests (new session / existing sid with a payload / unknown sid) with the
// key valid, absent, signed with another salt, with the root bit flipped, or garbage, placed in the
// header, the query, the form or a cookie. Oracle: invalid key => 403 and no session is created and
// the payload is not dispatched; valid key => 201 for a new session, the payload is processed for a
// live sid, 403 'session not found' for an unknown sid.

import (
	"sync"

	"github.com/tinode/chat/server/store"
	"runtime/debug"
	"io"

	"github.com/tinode/chat/server/logs"
	"fmt"
	"os"
	"container/list"
	"encoding/json"
	"net/http"
	"net/http/httptest"
	"net/url"
	"strings"
	"testing"
	"time"

	kit "github.com/tinode/chat/server/zzverifkit"
	"pgregory.net/rapid"
)

type c12LpReq struct {
	Key   int  `json:"key"`   // 0 valid, 1 absent, 2 other salt, 3 root bit flipped, 4 garbage
	Place int  `json:"place"` // 0 header, 1 query, 2 form, 3 cookie
	Sid   int  `json:"sid"`   // 0 none (new session), 1 the session created earlier, 2 unknown
	Body  bool `json:"body"`  // carry a {hi} payload
}

type c12LpCase struct {
	Salt []byte     `json:"salt"`
	Reqs []c12LpReq `json:"reqs"`
}

func c12LpGen(rt *rapid.T) c12LpCase {
	c := c12LpCase{Salt: rapid.SliceOfN(rapid.Byte(), 8, 40).Draw(rt, "salt")}
	n := rapid.IntRange(2, 8).Draw(rt, "n")
	// start with a valid session most of the time so that "existing sid" means something
	if rapid.IntRange(0, 9).Draw(rt, "first") < 8 {
		c.Reqs = append(c.Reqs, c12LpReq{Key: 0, Place: rapid.IntRange(0, 3).Draw(rt, "p0"), Sid: 0})
	}
	for i := 0; i < n; i++ {
		c.Reqs = append(c.Reqs, c12LpReq{
			Key:   rapid.SampledFrom([]int{0, 0, 1, 2, 3, 4}).Draw(rt, "key"),
			Place: rapid.IntRange(0, 3).Draw(rt, "place"),
			Sid:   rapid.SampledFrom([]int{0, 1, 1, 1, 2}).Draw(rt, "sid"),
			Body:  rapid.Bool().Draw(rt, "body"),
		})
	}
	return c
}

var c12LpOnce sync.Once

func c12LpExec(c c12LpCase) (o kit.Outcome) {
	c12KeyOnce.Do(func() { logs.Init(io.Discard, "stdFlags") })
	c12LpOnce.Do(func() {
		// session ids come from the store's id generator
		wProcessInit()
		if err := store.Store.Open(1, json.RawMessage(wStoreCfg)); err != nil {
			panic(err)
		}
	})
	savedSalt, savedStore, savedMax := globals.apiKeySalt, globals.sessionStore, globals.maxMessageSize
	defer func() { globals.apiKeySalt, globals.sessionStore, globals.maxMessageSize = savedSalt, savedStore, savedMax }()
	globals.apiKeySalt = append([]byte(nil), c.Salt...)
	globals.maxMessageSize = 1 << 16
	globals.sessionStore = &SessionStore{lru: list.New(), lifeTime: time.Hour, sessCache: make(map[string]*Session)}
	other := append([]byte("x"), c.Salt...)
	keyOf := func(kind int) string {
		switch kind {
		case 0:
			return c12RefEncode(c12RefKeyBytes(c.Salt, c12KeySpec{Version: 1, AppID: 7, Seq: 1}))
		case 2:
			return c12RefEncode(c12RefKeyBytes(other, c12KeySpec{Version: 1, AppID: 7, Seq: 1}))
		case 3:
			b := c12RefKeyBytes(c.Salt, c12KeySpec{Version: 1, AppID: 7, Seq: 1})
			b[7] ^= 1
			return c12RefEncode(b)
		case 4:
			return "not-a-key"
		}
		return ""
	}
	liveSid := ""
	good, bad := 0, 0
	for i, r := range c.Reqs {
		key := keyOf(r.Key)
		q := url.Values{}
		form := url.Values{}
		sid := ""
		switch r.Sid {
		case 1:
			sid = liveSid
		case 2:
			sid = "nosuchsessionid"
		}
		if sid != "" {
			q.Set("sid", sid)
		}
		body := ""
		if r.Body && sid != "" && r.Place != 2 {
			body = `{"hi":{"id":"h1","ver":"0.22","ua":"verif"}}`
		}
		if r.Place == 1 && key != "" {
			q.Set("apikey", key)
		}
		method := "GET"
		var rd *strings.Reader
		ctype := ""
		if r.Place == 2 && key != "" {
			form.Set("apikey", key)
			method, ctype = "POST", "application/x-www-form-urlencoded"
			rd = strings.NewReader(form.Encode())
		} else if body != "" {
			method = "POST"
			rd = strings.NewReader(body)
		} else {
			rd = strings.NewReader("")
		}
		req := httptest.NewRequest(method, "/v0/channels/lp?"+q.Encode(), rd)
		if ctype != "" {
			req.Header.Set("Content-Type", ctype)
		}
		if r.Place == 0 && key != "" {
			req.Header.Set("X-Tinode-APIKey", key)
		}
		if r.Place == 3 && key != "" {
			req.AddCookie(&http.Cookie{Name: "apikey", Value: key})
		}
		before := len(globals.sessionStore.sessCache)
		var verBefore int
		var live *Session
		if liveSid != "" {
			live = globals.sessionStore.Get(liveSid)
			if live != nil {
				verBefore = live.ver
			}
		}
		rec := httptest.NewRecorder()
		done := make(chan struct{})
		var pan any
		go func() {
			defer close(done)
			defer func() {
				if pan = recover(); pan != nil {
					pan = fmt.Sprintf("%v\n%s", pan, debug.Stack())
				}
			}()
			serveLongPoll(rec, req)
		}()
		select {
		case <-done:
		case <-time.After(200 * time.Millisecond):
			// a genuine long poll (valid key, live sid, no payload) waits for data: wake it up
			if live != nil {
				live.queueOut(NoErr("", "", time.Now()))
			}
			<-done
		}
		if pan != nil {
			o.Viol = kit.V("lp-handler-panic", "request %d (%+v): serveLongPoll panicked: %v", i, r, pan)
			return
		}
		if os.Getenv("VERIF_TRACE") != "" {
			fmt.Printf("LP req %d %+v -> %d %q\n", i, r, rec.Code, rec.Body.String())
		}
		validKey := r.Key == 0
		if !validKey {
			bad++
			if rec.Code != http.StatusForbidden {
				o.Viol = kit.V("lp-served-without-valid-key", "request %d (key kind %d placed %d, sid kind %d, payload %v) was answered %d, want 403", i, r.Key, r.Place, r.Sid, body != "", rec.Code)
				return
			}
			if len(globals.sessionStore.sessCache) != before {
				o.Viol = kit.V("lp-session-created-without-valid-key", "request %d without a valid key created a session", i)
				return
			}
			if live != nil && live.ver != verBefore {
				o.Viol = kit.V("lp-payload-dispatched-without-valid-key", "request %d without a valid key had its payload dispatched to session %s", i, liveSid)
				return
			}
			continue
		}
		good++
		switch {
		case sid == "":
			if rec.Code != http.StatusCreated {
				o.Viol = kit.V("lp-valid-key-refused", "request %d with a valid key (placed %d) for a new session was answered %d: %s", i, r.Place, rec.Code, rec.Body.String())
				return
			}
			var pkt struct {
				Ctrl struct {
					Params map[string]string `json:"params"`
				} `json:"ctrl"`
			}
			json.Unmarshal(rec.Body.Bytes(), &pkt)
			if pkt.Ctrl.Params["sid"] == "" {
				o.Viol = kit.V("lp-no-sid", "new session reply carries no sid: %s", rec.Body.String())
				return
			}
			liveSid = pkt.Ctrl.Params["sid"]
		case r.Sid == 2 || (r.Sid == 1 && live == nil):
			if rec.Code != http.StatusForbidden {
				o.Viol = kit.V("lp-unknown-sid-served", "request %d for an unknown session was answered %d", i, rec.Code)
				return
			}
		}
	}
	o.NonTrivial = good >= 1 && bad >= 1 && liveSid != ""
	if bad > 0 {
		o.Classes = append(o.Classes, "bad-key")
	}
	return
}

func TestC12LongPollGate(t *testing.T) { kit.Check(t, "C12", "TestC12LongPollGate", c12LpGen, c12LpExec) }
