package main

// C12 (API key part) — any API key not signed with the server's salt is refused;
// a key signed with it is accepted with the root flag it was issued with.
//
// Oracle: independent re-implementation of the documented layout
//   [1:algorithm version][4:appid][2:key sequence][1:isRoot][16:signature] = 24 bytes,
// little-endian integers, signature = HMAC-MD5(salt, first 8 bytes), text form =
// URL-safe base64 (24 bytes = 32 characters, no padding needed).

import (
	"crypto/hmac"
	"crypto/md5"
	"io"
	"sort"
	"strings"
	"sync"
	"testing"

	"github.com/tinode/chat/server/logs"
	kit "github.com/tinode/chat/server/zzverifkit"
	"pgregory.net/rapid"
)

const c12B64 = "ABCDEFGHIJKLMNOPQRSTUVWXYZabcdefghijklmnopqrstuvwxyz0123456789-_"

type c12KeySpec struct {
	Version int    `json:"version"`
	AppID   uint32 `json:"appid"`
	Seq     uint16 `json:"seq"`
	Who     int    `json:"who"`
}

type c12CharMut struct {
	Pos int `json:"pos"`
	Ch  int `json:"ch"`
}

// c12Short describes a key whose payload was cut to N bytes (re-encoded with
// padding) and whose text was brought back to an acceptable length with
// characters a base64 reader skips.
type c12Short struct {
	N      int   `json:"n"`      // payload bytes kept, 0..23
	Fill   int   `json:"fill"`   // 0: "\n", 1: "\r", 2: "\r\n" alternating
	Total  int   `json:"total"`  // total text length, 32..35
	Splits []int `json:"splits"` // where to insert the filler (positions modulo current length; empty = at the end)
}

type c12KeyCase struct {
	Salt     []byte       `json:"salt"`
	AltSalt  []byte       `json:"alt_salt"`
	Keys     []c12KeySpec `json:"keys"`
	Randoms  []string     `json:"randoms"`
	CharMuts []c12CharMut `json:"char_muts"`
	ByteMuts [][]int      `json:"byte_muts"` // lists of (pos, xor) pairs flattened
	Exts     []string     `json:"exts"`
	Shorts   []c12Short   `json:"shorts"`
}

func c12KeyGen(rt *rapid.T) c12KeyCase {
	var c c12KeyCase
	c.Salt = rapid.SliceOfN(rapid.Byte(), 1, 80).Draw(rt, "salt")
	switch rapid.IntRange(0, 2).Draw(rt, "altsalt_kind") {
	case 0:
		c.AltSalt = rapid.SliceOfN(rapid.Byte(), 1, 80).Draw(rt, "altsalt")
	case 1:
		c.AltSalt = append([]byte(nil), c.Salt...)
		p := rapid.IntRange(0, len(c.Salt)-1).Draw(rt, "altsalt_pos")
		c.AltSalt[p] ^= 1 << rapid.IntRange(0, 7).Draw(rt, "altsalt_bit")
	default:
		c.AltSalt = append(append([]byte(nil), c.Salt...), byte(rapid.IntRange(1, 255).Draw(rt, "altsalt_extra")))
	}
	nk := rapid.IntRange(1, 3).Draw(rt, "n_keys")
	for i := 0; i < nk; i++ {
		var k c12KeySpec
		if rapid.IntRange(0, 2).Draw(rt, "ver_kind") == 0 {
			k.Version = rapid.SampledFrom([]int{0, 2, 3, 255, 129}).Draw(rt, "ver")
			if rapid.IntRange(0, 3).Draw(rt, "ver_any") == 0 {
				k.Version = rapid.IntRange(0, 255).Draw(rt, "ver")
			}
		} else {
			k.Version = 1
		}
		k.AppID = rapid.OneOf(rapid.Just(uint32(0)), rapid.Uint32()).Draw(rt, "appid")
		k.Seq = rapid.Uint16().Draw(rt, "seq")
		if rapid.IntRange(0, 6).Draw(rt, "who_kind") == 0 {
			k.Who = rapid.IntRange(2, 255).Draw(rt, "who")
		} else {
			k.Who = rapid.IntRange(0, 1).Draw(rt, "who")
		}
		c.Keys = append(c.Keys, k)
	}
	alphaURL := []rune(c12B64)
	alphaMix := []rune(c12B64 + c12B64 + "+/=.\n\r %\x00é")
	nr := rapid.IntRange(0, 6).Draw(rt, "n_rand")
	for i := 0; i < nr; i++ {
		var s string
		switch rapid.IntRange(0, 3).Draw(rt, "rand_kind") {
		case 0: // right length, right alphabet, version byte 1
			s = "AQ" + string(rapid.SliceOfN(rapid.SampledFrom(alphaURL), 30, 30).Draw(rt, "r"))
		case 1: // right alphabet, any length
			s = string(rapid.SliceOfN(rapid.SampledFrom(alphaURL), 0, 48).Draw(rt, "r"))
		case 2:
			s = string(rapid.SliceOfN(rapid.SampledFrom(alphaMix), 0, 48).Draw(rt, "r"))
		default:
			s = rapid.StringN(0, 48, 48).Draw(rt, "r")
		}
		c.Randoms = append(c.Randoms, s)
	}
	nm := rapid.IntRange(1, 6).Draw(rt, "n_cm")
	for i := 0; i < nm; i++ {
		c.CharMuts = append(c.CharMuts, c12CharMut{rapid.IntRange(0, 31).Draw(rt, "cm_pos"), rapid.IntRange(0, 63).Draw(rt, "cm_ch")})
	}
	nb := rapid.IntRange(1, 4).Draw(rt, "n_bm")
	for i := 0; i < nb; i++ {
		k := rapid.IntRange(2, 5).Draw(rt, "bm_n")
		var m []int
		for j := 0; j < k; j++ {
			m = append(m, rapid.IntRange(0, 23).Draw(rt, "bm_pos"), rapid.IntRange(1, 255).Draw(rt, "bm_xor"))
		}
		c.ByteMuts = append(c.ByteMuts, m)
	}
	ne := rapid.IntRange(1, 3).Draw(rt, "n_ext")
	for i := 0; i < ne; i++ {
		c.Exts = append(c.Exts, string(rapid.SliceOfN(rapid.SampledFrom([]rune(c12B64+"=\n")), 1, 8).Draw(rt, "ext")))
	}
	ns := rapid.IntRange(0, 3).Draw(rt, "n_short")
	for i := 0; i < ns; i++ {
		sh := c12Short{N: rapid.IntRange(0, 23).Draw(rt, "sh_n"), Fill: rapid.IntRange(0, 2).Draw(rt, "sh_fill"), Total: rapid.IntRange(32, 35).Draw(rt, "sh_total")}
		sh.Splits = rapid.SliceOfN(rapid.IntRange(0, 40), 0, 3).Draw(rt, "sh_splits")
		c.Shorts = append(c.Shorts, sh)
	}
	return c
}

// ---- reference ----

func c12RefEncode(b []byte) string {
	var sb strings.Builder
	for i := 0; i < len(b); i += 3 {
		var v uint32
		n := 0
		for j := 0; j < 3; j++ {
			v <<= 8
			if i+j < len(b) {
				v |= uint32(b[i+j])
				n++
			}
		}
		sb.WriteByte(c12B64[v>>18&63])
		sb.WriteByte(c12B64[v>>12&63])
		if n > 1 {
			sb.WriteByte(c12B64[v>>6&63])
		} else {
			sb.WriteByte('=')
		}
		if n > 2 {
			sb.WriteByte(c12B64[v&63])
		} else {
			sb.WriteByte('=')
		}
	}
	return sb.String()
}

// c12RefDecode24 returns the 24 bytes a text denotes, or false when the text is not
// a spelling of a 24-byte value (CR and LF are skipped, as every base64 reader does).
func c12RefDecode24(s string) ([]byte, bool) {
	s = strings.NewReplacer("\r", "", "\n", "").Replace(s)
	if len(s) != 32 {
		return nil, false
	}
	out := make([]byte, 0, 24)
	for i := 0; i < 32; i += 4 {
		var v uint32
		for j := 0; j < 4; j++ {
			k := strings.IndexByte(c12B64, s[i+j])
			if k < 0 {
				return nil, false
			}
			v = v<<6 | uint32(k)
		}
		out = append(out, byte(v>>16), byte(v>>8), byte(v))
	}
	return out, true
}

func c12RefSign(salt, head []byte) []byte {
	h := hmac.New(md5.New, salt)
	h.Write(head)
	return h.Sum(nil)
}

func c12RefKeyBytes(salt []byte, k c12KeySpec) []byte {
	d := make([]byte, 8, 24)
	d[0] = byte(k.Version)
	d[1], d[2], d[3], d[4] = byte(k.AppID), byte(k.AppID>>8), byte(k.AppID>>16), byte(k.AppID>>24)
	d[5], d[6] = byte(k.Seq), byte(k.Seq>>8)
	d[7] = byte(k.Who)
	return append(d, c12RefSign(salt, d)...)
}

// c12RefSigned: is s a spelling of a key signed with salt?
func c12RefSigned(salt []byte, s string) (signed bool, data []byte) {
	d, ok := c12RefDecode24(s)
	if !ok {
		return false, nil
	}
	return hmac.Equal(c12RefSign(salt, d[:8]), d[8:]), d
}

func c12SaltNorm(k []byte) [64]byte {
	var out [64]byte
	if len(k) > 64 {
		h := md5.Sum(k)
		copy(out[:], h[:])
	} else {
		copy(out[:], k)
	}
	return out
}

var c12KeyOnce sync.Once

// c12Call runs checkAPIKey, turning a panic into a value.
func c12Call(s string) (valid, root bool, pan any) {
	defer func() {
		if r := recover(); r != nil {
			pan = r
		}
	}()
	valid, root = checkAPIKey(s)
	return
}

// c12PanicViol names the violation for a panic in checkAPIKey. When the text, with
// CR/LF removed, is shorter than the 32 characters of a 24-byte value the cause is
// understood (the decoded slice is shorter than the fixed offsets used) and gets a
// stable signature of its own; any other panic keeps a distinct one.
func c12PanicViol(kind, s string, pan any) *kit.Viol {
	stripped := strings.NewReplacer("\r", "", "\n", "").Replace(s)
	if len(stripped) < 32 {
		return kit.V("panic:decoded-shorter-than-24", "checkAPIKey(%q) panicked instead of refusing (%s; %d characters of which %d are CR/LF): %v",
			s, kind, len(s), len(s)-len(stripped), pan)
	}
	return kit.V("panic:other:"+kind, "checkAPIKey(%q) panicked: %v", s, pan)
}

func c12KeyExec(c c12KeyCase) (o kit.Outcome) {
	c12KeyOnce.Do(func() { logs.Init(io.Discard, "stdFlags") })
	cls := map[string]bool{}
	defer func() {
		ks := make([]string, 0, len(cls))
		for k := range cls {
			ks = append(ks, k)
		}
		sort.Strings(ks)
		o.Classes = ks
	}()
	if len(c.Keys) == 0 {
		o.Skip = true
		return o
	}
	saved := globals.apiKeySalt
	defer func() { globals.apiKeySalt = saved }()
	globals.apiKeySalt = append([]byte(nil), c.Salt...)
	accepted, refused := 0, 0
	var pending *kit.Viol

	// judge compares checkAPIKey(s) with the reference under the current salt.
	// derived: s was derived from an accepted key and must be refused.
	judge := func(kind, s string) *kit.Viol {
		valid, root, pan := c12Call(s)
		if pan != nil {
			// keep the first panic, carry on: it is reported at the end of the case unless
			// another kind of violation shows up (so a listed panic cannot mask anything)
			if pending == nil {
				pending = c12PanicViol(kind, s, pan)
			}
			cls["panicked"] = true
			return nil
		}
		signed, data := c12RefSigned(globals.apiKeySalt, s)
		if !signed {
			if valid {
				return kit.V("accepted:"+kind, "checkAPIKey(%q) accepted a key that is not signed with the salt %x (root=%v)", s, globals.apiKeySalt, root)
			}
			refused++
			return nil
		}
		// correctly signed
		if valid {
			if data[7] <= 1 && root != (data[7] == 1) {
				return kit.V("root-flag:"+kind, "checkAPIKey(%q) reported root=%v for a key issued with isRoot byte %d", s, root, data[7])
			}
			if data[7] > 1 {
				cls["who:non-boolean"] = true
			}
			accepted++
			return nil
		}
		if data[0] == 1 && len(s) == 32 {
			return kit.V("refused:valid", "checkAPIKey(%q) refused a version-1 key correctly signed with the salt %x", s, globals.apiKeySalt)
		}
		cls["signed-but-refused:"+kind] = true
		return nil
	}

	for _, spec := range c.Keys {
		data := c12RefKeyBytes(c.Salt, spec)
		key := c12RefEncode(data)
		if spec.Version == 1 {
			cls["key:version-1"] = true
		} else {
			cls["key:other-version"] = true
		}
		if spec.Who == 1 {
			cls["key:root"] = true
		}
		if o.Viol = judge("issued", key); o.Viol != nil {
			return o
		}
		// every single-bit flip of the 24 bytes
		for bit := 0; bit < 8*len(data); bit++ {
			b := append([]byte(nil), data...)
			b[bit/8] ^= 1 << (bit % 8)
			part := "signed-fields"
			if bit/8 >= 8 {
				part = "signature"
			}
			if o.Viol = judge("bit-flip:"+part, c12RefEncode(b)); o.Viol != nil {
				return o
			}
		}
		// multi-byte mutations
		for _, m := range c.ByteMuts {
			b := append([]byte(nil), data...)
			for j := 0; j+1 < len(m); j += 2 {
				b[((m[j]%24)+24)%24] ^= byte(m[j+1])
			}
			if o.Viol = judge("multi-mutation", c12RefEncode(b)); o.Viol != nil {
				return o
			}
		}
		// character replacements in the text
		for _, m := range c.CharMuts {
			p := ((m.Pos % 32) + 32) % 32
			ch := c12B64[((m.Ch%64)+64)%64]
			if key[p] == ch {
				continue
			}
			s := key[:p] + string(ch) + key[p+1:]
			if o.Viol = judge("char-replaced", s); o.Viol != nil {
				return o
			}
		}
		// every truncation of the text
		for n := 0; n < len(key); n++ {
			if o.Viol = judge("truncated", key[:n]); o.Viol != nil {
				return o
			}
		}
		// truncated payload, text brought back to length with skipped characters
		for _, sh := range c.Shorts {
			n := sh.N
			if n < 0 || n > 23 {
				n = ((n % 24) + 24) % 24
			}
			s := c12RefEncode(data[:n])
			total := sh.Total
			if total < 32 || total > 35 {
				total = 32
			}
			fillers := []string{"\n", "\r", "\r\n"}
			f := fillers[((sh.Fill%3)+3)%3]
			k := 0
			for len(s) < total {
				ch := string(f[k%len(f)])
				pos := len(s)
				if k < len(sh.Splits) {
					pos = ((sh.Splits[k] % (len(s) + 1)) + len(s) + 1) % (len(s) + 1)
				}
				s = s[:pos] + ch + s[pos:]
				k++
			}
			if o.Viol = judge("payload-truncated+filler", s); o.Viol != nil {
				return o
			}
			cls["short-payload"] = true
		}
		// extensions: the issued key followed by more characters is accepted as issued or refused
		for _, e := range c.Exts {
			valid, root, pan := c12Call(key + e)
			if pan != nil {
				if pending == nil {
					pending = c12PanicViol("extended", key+e, pan)
				}
				cls["panicked"] = true
				continue
			}
			if valid {
				if spec.Who <= 1 && root != (spec.Who == 1) {
					o.Viol = kit.V("root-flag:extended", "checkAPIKey(%q) reported root=%v, issued isRoot byte %d", key+e, root, spec.Who)
					return o
				}
				cls["ext:accepted-as-issued"] = true
			} else {
				cls["ext:refused"] = true
				refused++
			}
		}
		// foreign salt, both directions
		if c12SaltNorm(c.AltSalt) != c12SaltNorm(c.Salt) && len(c.AltSalt) > 0 {
			foreign := c12RefEncode(c12RefKeyBytes(c.AltSalt, spec))
			if o.Viol = judge("foreign-salt", foreign); o.Viol != nil {
				return o
			}
			globals.apiKeySalt = append([]byte(nil), c.AltSalt...)
			v := judge("foreign-salt", key)
			globals.apiKeySalt = append([]byte(nil), c.Salt...)
			if o.Viol = v; v != nil {
				return o
			}
			cls["foreign-salt"] = true
		} else {
			cls["altsalt:hmac-equivalent(skipped)"] = true
		}
	}
	for _, s := range c.Randoms {
		if o.Viol = judge("random", s); o.Viol != nil {
			return o
		}
		if _, ok := c12RefDecode24(s); ok {
			cls["random:decodable-24"] = true
		} else {
			cls["random:undecodable"] = true
		}
	}
	o.NonTrivial = accepted > 0 && refused > 0
	o.Viol = pending
	return o
}

func TestC12APIKey(t *testing.T) {
	kit.Check(t, "C12", "TestC12APIKey", c12KeyGen, c12KeyExec)
}

// FuzzC12APIKey: the same generator and oracle as TestC12APIKey under Go's coverage-guided fuzzer (thorough tier).
func FuzzC12APIKey(f *testing.F) { kit.FuzzOf(f, "C12", "TestC12APIKey", c12KeyGen, c12KeyExec) }
