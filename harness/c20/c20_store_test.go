package main

// C20 — the database form of an id: store.EncodeUid / store.DecodeUid.
// The generator behind them is initialised by store.Store.Open before the adapter is opened, so a
// stub adapter that refuses to open is enough; no database is involved.

import (
	"encoding/json"
	"errors"
	"testing"

	adapter "github.com/tinode/chat/server/db"
	"github.com/tinode/chat/server/store"
	"github.com/tinode/chat/server/store/types"
	kit "github.com/tinode/chat/server/zzverifkit"
	"pgregory.net/rapid"
)

// The real store object (session tests replace store.Store by mocks and leave nil behind).
var c20Store = store.Store

var errC20NoDB = errors.New("c20: stub adapter has no database")

type c20StubAdapter struct{ adapter.Adapter }

func (c20StubAdapter) GetName() string            { return "c20stub" }
func (c20StubAdapter) IsOpen() bool               { return false }
func (c20StubAdapter) SetMaxResults(int) error    { return nil }
func (c20StubAdapter) Open(json.RawMessage) error { return errC20NoDB }

type c20StoreCase struct {
	U uint64 `json:"u"`
}

func c20GenStoreU(rt *rapid.T) c20StoreCase {
	switch rapid.IntRange(0, 5).Draw(rt, "k") {
	case 0:
		return c20StoreCase{rapid.SampledFrom([]uint64{0, 1, 2, 1 << 63, 1<<63 - 1, ^uint64(0)}).Draw(rt, "b")}
	case 1:
		return c20StoreCase{uint64(1) << rapid.IntRange(0, 63).Draw(rt, "s")}
	default:
		return c20StoreCase{rapid.Uint64().Draw(rt, "u")}
	}
}

func TestC20StoreUid(t *testing.T) {
	store.Store = c20Store
	store.RegisterAdapter(c20StubAdapter{})
	err := store.Store.Open(1, json.RawMessage(`{"uid_key":"la6YsO+bNX/+XIkOqc5Svw==","use_adapter":"c20stub"}`))
	if !errors.Is(err, errC20NoDB) {
		t.Fatalf("HARNESS: store.Store.Open with the stub adapter returned %v; the id generator may not be initialised", err)
	}
	kit.Check(t, "C20", "TestC20StoreUid", c20GenStoreU, func(c c20StoreCase) kit.Outcome {
		o := kit.Outcome{NonTrivial: true}
		u := types.Uid(c.U)
		d := store.DecodeUid(u)
		if back := store.EncodeUid(d); back != u {
			if d == 0 && u != 0 {
				// the one id whose decrypted form is 0 collides with "no id"; the snowflake generator never issues it
				o.Classes = append(o.Classes, "decodes-to-zero")
				return o
			}
			o.Viol = kit.V("store-uid-roundtrip", "store.EncodeUid(store.DecodeUid(%d)=%d)=%d", c.U, d, uint64(back))
			return o
		}
		if (d == 0) != (u == 0) {
			o.Viol = kit.V("store-uid-zero", "DecodeUid(%d)=%d: zero and 'no id' must correspond", c.U, d)
			return o
		}
		// numeric form -> id -> numeric form
		n := int64(c.U)
		if back := store.DecodeUid(store.EncodeUid(n)); back != n {
			if n != 0 && store.EncodeUid(n) == 0 {
				o.Classes = append(o.Classes, "encodes-to-zero")
				return o
			}
			o.Viol = kit.V("store-uid-roundtrip", "store.DecodeUid(store.EncodeUid(%d))=%d", n, back)
			return o
		}
		if c.U>>63 == 1 {
			o.Classes = append(o.Classes, "highbit")
		}
		// a freshly generated id has a positive database form and survives both text forms
		g := store.Store.GetUid()
		gd := store.DecodeUid(g)
		if g.IsZero() {
			o.Classes = append(o.Classes, "generator-returned-zero")
		} else if gd <= 0 || store.EncodeUid(gd) != g || types.ParseUid(g.String()) != g || types.ParseUserId(g.UserId()) != g {
			o.Viol = kit.V("store-uid-generated", "generated id %d: database form %d, back %d, text %q", uint64(g), gd, uint64(store.EncodeUid(gd)), g.String())
		}
		return o
	})
}
