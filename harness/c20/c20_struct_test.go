package main

// C20 — reflection over the JSON-tagged wire structs of datamodel.go: leaf enumeration, meaning
// tree, rapid generator, single-leaf mutation.

import (
	"encoding/base64"
	"encoding/json"
	"fmt"
	"reflect"
	"strconv"
	"strings"
	"time"
	"unicode"
	"unicode/utf8"

	"github.com/tinode/chat/server/auth"
	"pgregory.net/rapid"
)

var (
	c20TimeType = reflect.TypeOf(time.Time{})
	c20RawType  = reflect.TypeOf(json.RawMessage{})
)

// c20Field: JSON name of a struct field; embedded=true for an untagged anonymous struct.
func c20Field(f reflect.StructField) (name string, embedded, ok bool) {
	if f.PkgPath != "" && !f.Anonymous {
		return "", false, false
	}
	tag, has := f.Tag.Lookup("json")
	if has {
		name = strings.Split(tag, ",")[0]
		if name == "-" {
			return "", false, false
		}
	}
	if f.Anonymous && name == "" && f.Type.Kind() == reflect.Struct {
		return "", true, true
	}
	if !has {
		// untagged exported field of a wire struct: JSON would use the Go name; none exists today
		name = f.Name
	}
	return name, false, true
}

func c20Join(path, name string) string {
	if path == "" {
		return name
	}
	return path + "." + name
}

// c20StructLeaves enumerates every JSON-tagged leaf reachable from t.
func c20StructLeaves(t reflect.Type, path string, out map[string]reflect.Type) {
	switch {
	case t == c20TimeType, t.Kind() == reflect.Ptr && t.Elem() == c20TimeType:
		out[path] = t
	case t.Kind() == reflect.Ptr:
		c20StructLeaves(t.Elem(), path, out)
	case t.Kind() == reflect.Struct:
		for i := 0; i < t.NumField(); i++ {
			name, emb, ok := c20Field(t.Field(i))
			if !ok {
				continue
			}
			if emb {
				c20StructLeaves(t.Field(i).Type, path, out)
			} else {
				c20StructLeaves(t.Field(i).Type, c20Join(path, name), out)
			}
		}
	case t.Kind() == reflect.Slice && (t.Elem().Kind() == reflect.Struct || t.Elem().Kind() == reflect.Ptr):
		c20StructLeaves(t.Elem(), path+"[]", out)
	default:
		out[path] = t
	}
}

func c20AuthMeaning(s string) string {
	switch auth.ParseAuthLevel(s) {
	case auth.LevelAnon:
		return "anon"
	case auth.LevelAuth:
		return "auth"
	case auth.LevelRoot:
		return "root"
	}
	return ""
}

// c20StructTree builds the meaning tree of a wire struct. Excluded paths are left out.
func c20StructTree(v reflect.Value, path string) any {
	if path != "" && c20Excluded(path) != nil {
		return nil
	}
	t := v.Type()
	switch {
	case t == c20TimeType:
		tm := v.Interface().(time.Time)
		if tm.IsZero() {
			return nil
		}
		return c20TimeLeaf(tm.Unix(), int64(tm.Nanosecond()))
	case t.Kind() == reflect.Ptr:
		if v.IsNil() {
			return nil
		}
		return c20StructTree(v.Elem(), path)
	case t.Kind() == reflect.Struct:
		out := map[string]any{}
		var fill func(sv reflect.Value)
		fill = func(sv reflect.Value) {
			for i := 0; i < sv.NumField(); i++ {
				name, emb, ok := c20Field(sv.Type().Field(i))
				if !ok {
					continue
				}
				if emb {
					fill(sv.Field(i))
					continue
				}
				if x := c20StructTree(sv.Field(i), c20Join(path, name)); x != nil {
					out[name] = x
				}
			}
		}
		fill(v)
		if len(out) == 0 {
			return nil
		}
		return out
	case t == c20RawType:
		if v.Len() == 0 {
			return nil
		}
		return "y:" + base64.StdEncoding.EncodeToString(v.Bytes())
	case t.Kind() == reflect.Slice && t.Elem().Kind() == reflect.Uint8:
		if v.Len() == 0 {
			return nil
		}
		return "y:" + base64.StdEncoding.EncodeToString(v.Bytes())
	case t.Kind() == reflect.Slice && t.Elem().Kind() == reflect.String:
		var arr []any
		for i := 0; i < v.Len(); i++ {
			arr = append(arr, "s:"+v.Index(i).String())
		}
		if len(arr) == 0 {
			return nil
		}
		return arr
	case t.Kind() == reflect.Slice:
		var arr []any
		for i := 0; i < v.Len(); i++ {
			x := c20StructTree(v.Index(i), path+"[]")
			if x == nil {
				x = map[string]any{}
			}
			arr = append(arr, x)
		}
		if len(arr) == 0 {
			return nil
		}
		return arr
	case t.Kind() == reflect.Map:
		if v.Len() == 0 {
			return nil
		}
		return c20MapLeaf(v.Interface())
	case t.Kind() == reflect.Interface:
		if v.IsNil() {
			return nil
		}
		x := v.Interface()
		if rv := reflect.ValueOf(x); rv.Kind() == reflect.Map && strings.HasSuffix(path, "params") {
			// ctrl.params is declared 'any' but the schema carries a map of JSON values
			return c20MapLeaf(x)
		}
		if s, ok := c20CanonJSON(x); ok {
			return "j:" + s
		}
		return nil
	case t.Kind() == reflect.String:
		s := v.String()
		if strings.HasSuffix(path, "authlevel") {
			s = c20AuthMeaning(s)
		}
		if s == "" {
			return nil
		}
		return "s:" + s
	case t.Kind() == reflect.Bool:
		if !v.Bool() {
			return nil
		}
		return "b:true"
	case t.Kind() == reflect.Int:
		if v.Int() == 0 {
			return nil
		}
		return fmt.Sprintf("i:%d", v.Int())
	}
	panic("c20: unsupported type " + t.String() + " at " + path)
}

// c20MapLeaf: a map of JSON values, nil entries dropped (JSON null inside these maps is not generated).
func c20MapLeaf(m any) any {
	b, err := json.Marshal(m)
	if err != nil {
		return "j:!marshal:" + err.Error()
	}
	var x map[string]any
	if json.Unmarshal(b, &x) != nil {
		return "j:!notamap:" + string(b)
	}
	for k, e := range x {
		if e == nil {
			delete(x, k)
		}
	}
	if len(x) == 0 {
		return nil
	}
	b, _ = json.Marshal(x)
	return "j:" + string(b)
}

func c20TreeOf(msg any) map[string]any {
	t, _ := c20StructTree(reflect.ValueOf(msg), "").(map[string]any)
	if t == nil {
		t = map[string]any{}
	}
	return t
}

// ---------------------------------------------------------------- value domains

var c20EnumStrings = map[string][]string{
	"acc.authlevel":   {"", "anon", "auth", "ANON", "AUTH"},
	"extra.authlevel": {"", "anon", "auth", "root", "AUTH"},
	"del.what":        {"msg", "topic", "sub", "user", "cred", ""},
	"note.what":       {"kp", "read", "recv", "call"},
	"info.what":       {"kp", "read", "recv", "call"},
	"note.event":      {"", "accept", "answer", "hang-up", "ice-candidate", "invite", "offer", "ringing"},
	"info.event":      {"", "accept", "answer", "hang-up", "ice-candidate", "invite", "offer", "ringing"},
	"pres.what":       {"on", "off", "ua", "upd", "gone", "acs", "term", "msg", "read", "recv", "del", "tags"},
}

var c20Modes = []string{"", "N", "JRWPASDO", "JRWPS", "RW", "JP", "JRWPA", "R"}

const c20B64 = "ABCDEFGHIJKLMNOPQRSTUVWXYZabcdefghijklmnopqrstuvwxyz0123456789-_"

func c20IsModePath(path string) bool {
	for _, s := range []string{".want", ".given", ".mode", "defacs.auth", "defacs.anon"} {
		if strings.HasSuffix(path, s) {
			return true
		}
	}
	return false
}

func c20IsIDPath(path string) bool {
	for _, s := range []string{".user", ".from", ".tgt", ".act", ".obo", ".topic", ".src"} {
		if strings.HasSuffix(path, s) {
			return true
		}
	}
	return false
}

// c20GenID returns an id-like string and whether it differs from a valid encoding in exactly one position.
func c20GenID(rt *rapid.T) (string, bool) {
	body := rapid.StringOfN(rapid.RuneFrom([]rune(c20B64)), 11, 11, 11).Draw(rt, "idbody")
	switch rapid.IntRange(0, 9).Draw(rt, "idkind") {
	case 0:
		return "me", false
	case 1:
		return rapid.SampledFrom([]string{"fnd", "sys", "new", "newAbc", "nch", "slf"}).Draw(rt, "special"), false
	case 2:
		return "grp" + body, false
	case 3:
		b := []byte(body)
		b[rapid.IntRange(0, 10).Draw(rt, "pos")] = rapid.SampledFrom([]byte("+/=.!~ ")).Draw(rt, "junk")
		return "usr" + string(b), true
	case 4:
		return "p2p" + body + body, false
	default:
		return "usr" + body, false
	}
}

// Strings. JSON quoting and Go/C string-literal quoting agree on letters, \n, \r, \t, \" and \\ and on
// nothing else, so a converter that renders text by any other means than a JSON encoder shows on:
// every control character 0x00-0x1f, DEL, C1 controls (U+0085), the line/paragraph separators, the byte
// order mark, the ends of the BMP and of the surrogate gap, characters outside the BMP (emoji, the
// non-printable U+E0001, the last code point U+10FFFF), text that merely looks like an escape, and - for
// values of type 'any' only - bytes that are not UTF-8 at all.
var c20PlainRunes = []rune("abcXYZ019 _-.:/\"'<&\\éжß東😀")

var c20ExoticPieces = func() []string {
	var out []string
	for b := 0; b < 0x20; b++ {
		out = append(out, string(rune(b)))
	}
	out = append(out, "\x7f", "\u0080", "\u0085", "\u009f", "\u00a0", "\u00ad", "\u2028", "\u2029", "\u200b", "\u200d", "\u202e", "\ufeff", "\ufffd", "\ufffe", "\uffff",
		"\ud7ff", "\ue000", "\uf8fe", "😀", "\U0001F9D1\u200d\U0001F680", "\U00010000", "\U000e0001", "\U000e007f", "\U000f0000", "\U0010fffe", "\U0010ffff",
		"\"", "\\", "'", "\\\"", "`", "/", "</script>", "<!--", "&amp;", "\r\n", "\x1b[0m",
		// text that looks like an escape or a surrogate but is ordinary characters
		`\u0007`, `\x7f`, `\U000e0001`, `\ud800`, `\ud83d\ude00`, `\a`, `\v`, `\0`, `%00`,
		"a", "Z", "7", " ", "é", "東")
	return out
}()

// Bytes that are not UTF-8 (surrogates spelled as three-byte sequences, overlong forms, truncated
// sequences, values above U+10FFFF, stray continuation bytes). A case is JSON text and cannot hold them:
// inside a case they are spelled c20RawMark + two hex digits per byte and c20ExpandRaw turns them into the
// bytes when the message is built. The reference is the JSON rendering, where encoding/json shows each
// offending byte as U+FFFD.
const c20RawMark = '\uf8ff'

var c20InvalidPieces = []string{"\xff", "\xfe", "\x80", "\xbf", "\xc0\x80", "\xc1\xbf", "\xe0\x80\x80", "\xed\xa0\x80", "\xed\xbf\xbf", "\xed\xa0\xbd\xed\xb8\x80",
	"\xe2\x82", "\xf0\x9f\x98", "\xf4\x90\x80\x80", "\xf8\x88\x80\x80\x80", "\xc3"}

func c20MarkRaw(b string) string {
	var sb strings.Builder
	for i := 0; i < len(b); i++ {
		sb.WriteRune(c20RawMark)
		fmt.Fprintf(&sb, "%02x", b[i])
	}
	return sb.String()
}

// c20ExpandRaw replaces every c20RawMark+hh by the byte hh.
func c20ExpandRaw(s string) string {
	if !strings.ContainsRune(s, c20RawMark) {
		return s
	}
	const ml = len(string(c20RawMark))
	var out []byte
	for i := 0; i < len(s); {
		if strings.HasPrefix(s[i:], string(c20RawMark)) && i+ml+2 <= len(s) {
			if b, err := strconv.ParseUint(s[i+ml:i+ml+2], 16, 8); err == nil {
				out = append(out, byte(b))
				i += ml + 2
				continue
			}
		}
		out = append(out, s[i])
		i++
	}
	return string(out)
}

// c20ExpandAny expands the raw-byte spelling in every string value of a decoded JSON value (keys are left alone).
func c20ExpandAny(v any) any {
	switch x := v.(type) {
	case string:
		return c20ExpandRaw(x)
	case []any:
		out := make([]any, len(x))
		for i := range x {
			out[i] = c20ExpandAny(x[i])
		}
		return out
	case map[string]any:
		out := make(map[string]any, len(x))
		for k, e := range x {
			out[k] = c20ExpandAny(e)
		}
		return out
	case map[string]string:
		out := make(map[string]string, len(x))
		for k, e := range x {
			out[k] = c20ExpandRaw(e)
		}
		return out
	}
	return v
}

// c20ExpandStruct applies c20ExpandAny to every member of type 'any' or map[string]any of a wire struct
// (message content, public/private/trusted, head, params): only these can hold arbitrary bytes in the
// server's memory; plain string members stay valid UTF-8 (see c20ValueNotes).
func c20ExpandStruct(v reflect.Value) {
	t := v.Type()
	switch {
	case t == c20TimeType, t == c20RawType:
	case t.Kind() == reflect.Ptr:
		if !v.IsNil() {
			c20ExpandStruct(v.Elem())
		}
	case t.Kind() == reflect.Struct:
		for i := 0; i < t.NumField(); i++ {
			if _, _, ok := c20Field(t.Field(i)); ok && v.Field(i).CanSet() {
				c20ExpandStruct(v.Field(i))
			}
		}
	case t.Kind() == reflect.Slice && (t.Elem().Kind() == reflect.Struct || t.Elem().Kind() == reflect.Ptr):
		for i := 0; i < v.Len(); i++ {
			c20ExpandStruct(v.Index(i))
		}
	case t.Kind() == reflect.Interface:
		if !v.IsNil() {
			x := c20ExpandAny(v.Interface())
			v.Set(reflect.ValueOf(&x).Elem())
		}
	case t.Kind() == reflect.Map && t.Elem().Kind() == reflect.Interface && t.Key().Kind() == reflect.String:
		if v.Len() > 0 {
			if m, ok := v.Interface().(map[string]any); ok {
				v.Set(reflect.ValueOf(c20ExpandAny(m)))
			}
		}
	}
}

// c20StrClasses labels what kinds of text a built message holds: in a value of type 'any' that is a
// plain string ("anystr:"), nested inside such a value ("anynested:") and in plain string members ("str:").
func c20StrClasses(v reflect.Value, out map[string]bool) {
	label := func(prefix, s string) {
		if !utf8.ValidString(s) {
			out[prefix+"not-utf8"] = true
		}
		for _, r := range s {
			switch {
			case r == '\n' || r == '\r' || r == '\t':
			case r < 0x20:
				out[prefix+"control"] = true
			case r == 0x7f:
				out[prefix+"del"] = true
			case r == 0x85 || r == 0x2028 || r == 0x2029 || r == 0xfeff:
				out[prefix+"nel/ls/ps/bom"] = true
			case r == '"' || r == '\\':
				out[prefix+"quote/backslash"] = true
			case r > 0xffff && !unicode.IsPrint(r):
				out[prefix+"non-bmp-unprintable"] = true
			case r > 0xffff:
				out[prefix+"non-bmp"] = true
			}
		}
	}
	var nested func(x any)
	nested = func(x any) {
		switch e := x.(type) {
		case string:
			label("anynested:", e)
		case []any:
			for _, y := range e {
				nested(y)
			}
		case map[string]any:
			for _, y := range e {
				nested(y)
			}
		case map[string]string:
			for _, y := range e {
				label("anystr:", y) // params of type map[string]string: each value is rendered on its own
			}
		}
	}
	t := v.Type()
	switch {
	case t == c20TimeType, t == c20RawType:
	case t.Kind() == reflect.Ptr:
		if !v.IsNil() {
			c20StrClasses(v.Elem(), out)
		}
	case t.Kind() == reflect.Struct:
		for i := 0; i < t.NumField(); i++ {
			if _, _, ok := c20Field(t.Field(i)); ok {
				c20StrClasses(v.Field(i), out)
			}
		}
	case t.Kind() == reflect.Slice && (t.Elem().Kind() == reflect.Struct || t.Elem().Kind() == reflect.Ptr):
		for i := 0; i < v.Len(); i++ {
			c20StrClasses(v.Index(i), out)
		}
	case t.Kind() == reflect.Slice && t.Elem().Kind() == reflect.String:
		for i := 0; i < v.Len(); i++ {
			label("str:", v.Index(i).String())
		}
	case t.Kind() == reflect.Interface:
		if !v.IsNil() {
			if s, ok := v.Interface().(string); ok {
				label("anystr:", s)
			} else {
				nested(v.Interface())
			}
		}
	case t.Kind() == reflect.Map:
		if m, ok := v.Interface().(map[string]any); ok {
			nested(m)
		}
	case t.Kind() == reflect.String:
		label("str:", v.String())
	}
}

// c20GenString draws a valid UTF-8 string for a plain string member (also used inside 'any' values).
func c20GenString(rt *rapid.T, path string) string {
	if rapid.IntRange(0, 9).Draw(rt, "strk") < 6 {
		return rapid.StringOfN(rapid.RuneFrom(c20PlainRunes), 1, 8, 24).Draw(rt, "str")
	}
	n := rapid.IntRange(1, 5).Draw(rt, "strn")
	var sb strings.Builder
	for i := 0; i < n; i++ {
		sb.WriteString(rapid.SampledFrom(c20ExoticPieces).Draw(rt, "piece"))
	}
	return sb.String()
}

// c20GenAnyString draws a string that is (part of) a value of type 'any': as c20GenString, or with bytes
// that are not UTF-8 (in the raw-byte spelling).
func c20GenAnyString(rt *rapid.T) string {
	if rapid.IntRange(0, 7).Draw(rt, "rawk") != 0 {
		return c20GenString(rt, "")
	}
	n := rapid.IntRange(1, 4).Draw(rt, "rawn")
	var sb strings.Builder
	for i := 0; i < n; i++ {
		if i%2 == 0 || rapid.Bool().Draw(rt, "rawb") {
			sb.WriteString(c20MarkRaw(rapid.SampledFrom(c20InvalidPieces).Draw(rt, "rawpiece")))
		} else {
			sb.WriteString(rapid.SampledFrom(c20ExoticPieces).Draw(rt, "piece"))
		}
	}
	return sb.String()
}

func c20GenJSON(rt *rapid.T, depth int) any {
	k := rapid.IntRange(0, 9).Draw(rt, "jk")
	if depth <= 0 && k >= 7 {
		k = 0
	}
	switch k {
	case 0, 1:
		return c20GenAnyString(rt)
	case 2:
		return float64(rapid.IntRange(-1000000, 1000000).Draw(rt, "jnum"))
	case 3:
		return rapid.SampledFrom([]float64{0, 1.5, -0.25, 1e9, 1234567.875}).Draw(rt, "jflt")
	case 4:
		return rapid.Bool().Draw(rt, "jbool")
	case 5:
		return ""
	case 6:
		return rapid.SampledFrom([]any{"␡", "AQID", float64(0), false}).Draw(rt, "jspecial")
	case 7:
		n := rapid.IntRange(0, 3).Draw(rt, "jn")
		arr := make([]any, 0, n)
		for i := 0; i < n; i++ {
			arr = append(arr, c20GenJSON(rt, depth-1))
		}
		return arr
	default:
		return c20GenJSONMap(rt, depth-1, true)
	}
}

func c20GenJSONMap(rt *rapid.T, depth int, nested bool) map[string]any {
	n := rapid.IntRange(1, 3).Draw(rt, "mn")
	m := map[string]any{}
	for i := 0; i < n; i++ {
		k := rapid.SampledFrom([]string{"a", "b", "fn", "mime", "x-y", "é", "seq", "who", "k\a\x7f", "😀\U000e0001", "q\"\\"}).Draw(rt, "mk")
		v := c20GenJSON(rt, depth)
		if nested && rapid.IntRange(0, 9).Draw(rt, "mnull") == 0 {
			v = nil // JSON null is fine inside a payload, only not as a direct member of head/params
		}
		m[k] = v
	}
	return m
}

var c20T0 = time.Date(2021, 3, 4, 5, 6, 7, 891000000, time.UTC)

func c20GenTime(rt *rapid.T) time.Time {
	sec := rapid.Int64Range(978307200, 4102444800).Draw(rt, "sec") // 2001 .. 2100
	ms := rapid.SampledFrom([]int{0, 0, 1, 500, 999, -1}).Draw(rt, "ms")
	if ms < 0 {
		ms = rapid.IntRange(0, 999).Draw(rt, "msr")
	}
	return time.Unix(sec, int64(ms)*1000000).UTC()
}

func c20GenInt(rt *rapid.T) int {
	switch rapid.IntRange(0, 5).Draw(rt, "ik") {
	case 0:
		return 0
	case 1:
		return rapid.SampledFrom([]int{1, 2, 127, 128, 65535, 1<<31 - 1, 1<<31 - 2, 1 << 30}).Draw(rt, "ib")
	default:
		return rapid.IntRange(1, 100000).Draw(rt, "iv")
	}
}

type c20GenInfo struct {
	SubStructs int  // optional sub-structures (pointer-to-struct, non-empty struct slices) present
	OffByOneID bool // an id string that differs from a valid encoding in exactly one position
	ParamsStr  bool // ctrl.params generated as map[string]string
}

// c20InitFresh establishes the documented companions of a freshly allocated sub-structure.
func c20InitFresh(v reflect.Value) {
	switch x := v.Addr().Interface().(type) {
	case *MsgLastSeenInfo:
		t := c20T0
		x.When = &t
	case *MsgServerData:
		x.Timestamp = c20T0
	}
}

// c20Gen fills v (settable) from rapid draws. present=1.0 forces every optional member.
func c20Gen(rt *rapid.T, v reflect.Value, path string, full bool, info *c20GenInfo) {
	if path != "" && c20Excluded(path) != nil {
		return
	}
	t := v.Type()
	present := func(label string) bool {
		if full {
			return true
		}
		return rapid.IntRange(0, 9).Draw(rt, label) < 6
	}
	switch {
	case t == c20TimeType:
		v.Set(reflect.ValueOf(c20GenTime(rt)))
	case t.Kind() == reflect.Ptr && t.Elem() == c20TimeType:
		if present("tp") {
			tm := c20GenTime(rt)
			v.Set(reflect.ValueOf(&tm))
		}
	case t.Kind() == reflect.Ptr:
		if present("pp") {
			v.Set(reflect.New(t.Elem()))
			c20InitFresh(v.Elem())
			c20Gen(rt, v.Elem(), path, full, info)
			info.SubStructs++
		}
	case t.Kind() == reflect.Struct:
		c20InitFresh(v)
		for i := 0; i < t.NumField(); i++ {
			name, emb, ok := c20Field(t.Field(i))
			if !ok {
				continue
			}
			if emb {
				c20Gen(rt, v.Field(i), path, full, info)
			} else {
				c20Gen(rt, v.Field(i), c20Join(path, name), full, info)
			}
		}
	case t == c20RawType:
		if present("rp") {
			s, _ := c20CanonJSON(c20ExpandAny(c20GenJSON(rt, 1)))
			if s == "" {
				s = "null"
			}
			v.SetBytes([]byte(s))
		}
	case t.Kind() == reflect.Slice && t.Elem().Kind() == reflect.Uint8:
		if present("bp") {
			v.SetBytes(rapid.SliceOfN(rapid.Byte(), 1, 8).Draw(rt, "bytes"))
		}
	case t.Kind() == reflect.Slice && t.Elem().Kind() == reflect.String:
		if present("sp") {
			n := rapid.IntRange(1, 3).Draw(rt, "sn")
			s := reflect.MakeSlice(t, n, n)
			for i := 0; i < n; i++ {
				s.Index(i).SetString(c20GenString(rt, path))
			}
			v.Set(s)
		}
	case t.Kind() == reflect.Slice:
		if present("lp") {
			n := rapid.IntRange(1, 3).Draw(rt, "ln")
			s := reflect.MakeSlice(t, n, n)
			for i := 0; i < n; i++ {
				e := s.Index(i)
				if e.Kind() == reflect.Ptr {
					e.Set(reflect.New(t.Elem().Elem()))
					e = e.Elem()
				}
				c20Gen(rt, e, path+"[]", full, info)
			}
			v.Set(s)
			info.SubStructs++
		}
	case t.Kind() == reflect.Map:
		if present("mp") {
			v.Set(reflect.ValueOf(c20GenJSONMap(rt, 1, false)))
		}
	case t.Kind() == reflect.Interface:
		if !present("ap") {
			return
		}
		if strings.HasSuffix(path, "params") {
			// ctrl.params: the server assigns map[string]any (most replies) or map[string]string (InfoUseOther, datamodel.go:1080)
			if rapid.IntRange(0, 3).Draw(rt, "pstr") == 0 {
				info.ParamsStr = true
				v.Set(reflect.ValueOf(map[string]string{"topic": c20GenAnyString(rt)}))
			} else {
				v.Set(reflect.ValueOf(c20GenJSONMap(rt, 1, false)))
			}
			return
		}
		x := c20GenJSON(rt, 2)
		v.Set(reflect.ValueOf(&x).Elem())
	case t.Kind() == reflect.String:
		if vals, ok := c20EnumStrings[path]; ok {
			v.SetString(rapid.SampledFrom(vals).Draw(rt, "enum"))
			return
		}
		if !present("strp") {
			return
		}
		switch {
		case c20IsModePath(path):
			v.SetString(rapid.SampledFrom(c20Modes).Draw(rt, "mode"))
		case c20IsIDPath(path):
			s, off := c20GenID(rt)
			info.OffByOneID = info.OffByOneID || off
			v.SetString(s)
		case strings.HasSuffix(path, ".what"):
			v.SetString(rapid.SampledFrom([]string{"desc", "sub", "data", "desc sub", "sub data del", "tags cred", "desc sub data tags"}).Draw(rt, "what"))
		default:
			v.SetString(c20GenString(rt, path))
		}
	case t.Kind() == reflect.Bool:
		v.SetBool(rapid.Bool().Draw(rt, "bool"))
	case t.Kind() == reflect.Int:
		v.SetInt(int64(c20GenInt(rt)))
	default:
		panic("c20: cannot generate " + t.String() + " at " + path)
	}
}

// c20FieldByJSON finds a field by JSON name, looking through embedded structs.
func c20FieldByJSON(v reflect.Value, name string) (reflect.Value, bool) {
	t := v.Type()
	for i := 0; i < t.NumField(); i++ {
		n, emb, ok := c20Field(t.Field(i))
		if !ok {
			continue
		}
		if emb {
			if f, ok := c20FieldByJSON(v.Field(i), name); ok {
				return f, true
			}
		} else if n == name {
			return v.Field(i), true
		}
	}
	return reflect.Value{}, false
}

// c20Locate walks to the leaf named by path below the struct v (addressable), creating absent
// sub-structures (empty apart from their documented companions) and a first list element on the way.
func c20Locate(v reflect.Value, path string) reflect.Value {
	segs := strings.Split(path, ".")
	cur := v
	for i, seg := range segs {
		list := strings.HasSuffix(seg, "[]")
		name := strings.TrimSuffix(seg, "[]")
		f, ok := c20FieldByJSON(cur, name)
		if !ok {
			panic("c20: no field " + name + " in " + cur.Type().String() + " for path " + path)
		}
		last := i == len(segs)-1
		if last && !list {
			return f
		}
		if list {
			if f.Len() == 0 {
				f.Set(reflect.MakeSlice(f.Type(), 1, 1))
				if f.Index(0).Kind() == reflect.Ptr {
					f.Index(0).Set(reflect.New(f.Type().Elem().Elem()))
				}
			}
			f = f.Index(0)
		}
		if f.Kind() == reflect.Ptr {
			if f.IsNil() {
				f.Set(reflect.New(f.Type().Elem()))
				c20InitFresh(f.Elem())
			}
			f = f.Elem()
		}
		cur = f
	}
	panic("c20: path ends in a container: " + path)
}

// c20MutateLeaf changes exactly one leaf to a different valid value of a different meaning.
func c20MutateLeaf(root reflect.Value, path string) {
	f := c20Locate(root, path)
	t := f.Type()
	switch {
	case t == c20TimeType:
		tm := f.Interface().(time.Time)
		if tm.IsZero() {
			tm = c20T0
		}
		f.Set(reflect.ValueOf(tm.Add(61*time.Second + 7*time.Millisecond)))
	case t.Kind() == reflect.Ptr && t.Elem() == c20TimeType:
		tm := c20T0
		if !f.IsNil() {
			tm = f.Elem().Interface().(time.Time).Add(61*time.Second + 7*time.Millisecond)
		}
		f.Set(reflect.ValueOf(&tm))
	case t == c20RawType:
		if string(f.Bytes()) == `"zz"` {
			f.SetBytes([]byte(`"yy"`))
		} else {
			f.SetBytes([]byte(`"zz"`))
		}
	case t.Kind() == reflect.Slice && t.Elem().Kind() == reflect.Uint8:
		f.SetBytes(append(append([]byte(nil), f.Bytes()...), 0x5a))
	case t.Kind() == reflect.Slice && t.Elem().Kind() == reflect.String:
		f.Set(reflect.Append(f, reflect.ValueOf("zz")))
	case t.Kind() == reflect.Map:
		m := map[string]any{}
		for _, k := range f.MapKeys() {
			m[k.String()] = f.MapIndex(k).Interface()
		}
		if m["zz"] == "v" {
			m["zz"] = "w"
		} else {
			m["zz"] = "v"
		}
		f.Set(reflect.ValueOf(m))
	case t.Kind() == reflect.Interface:
		if strings.HasSuffix(path, "params") {
			m := map[string]any{}
			if !f.IsNil() {
				if b, err := json.Marshal(f.Interface()); err == nil {
					_ = json.Unmarshal(b, &m)
				}
			}
			if m["zz"] == "v" {
				m["zz"] = "w"
			} else {
				m["zz"] = "v"
			}
			f.Set(reflect.ValueOf(m))
			return
		}
		var x any = "zz"
		if !f.IsNil() && f.Interface() == "zz" {
			x = "yy"
		}
		f.Set(reflect.ValueOf(&x).Elem())
	case t.Kind() == reflect.String:
		cur := f.String()
		if vals, ok := c20EnumStrings[path]; ok {
			for _, cand := range vals {
				same := cand == cur
				if strings.HasSuffix(path, "authlevel") {
					same = c20AuthMeaning(cand) == c20AuthMeaning(cur)
				}
				if !same {
					f.SetString(cand)
					return
				}
			}
			panic("c20: no alternative enum value for " + path)
		}
		if c20IsModePath(path) {
			if cur == "JRWPS" {
				f.SetString("JRWP")
			} else {
				f.SetString("JRWPS")
			}
			return
		}
		f.SetString(cur + "z")
	case t.Kind() == reflect.Bool:
		f.SetBool(!f.Bool())
	case t.Kind() == reflect.Int:
		if f.Int() >= 1<<31-1 {
			f.SetInt(f.Int() - 1)
		} else {
			f.SetInt(f.Int() + 1)
		}
	default:
		panic("c20: cannot mutate " + t.String() + " at " + path)
	}
}
