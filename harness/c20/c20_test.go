package main

// C20 — messages mean the same in protobuf and in JSON (converter part).
//
// Every converter call is judged on its own: the meaning tree of its input must equal the meaning
// tree of its output (c20StructTree from the JSON tags, c20PbTree from the harness's reading of
// model.proto). On top of that a sensitivity sweep changes one JSON-tagged leaf at a time and
// requires the protobuf message and the struct decoded from it to change, so a field that both
// converters forget is caught even if the table were to forget it too.

import (
	"encoding/base64"
	"encoding/json"
	"fmt"
	"reflect"
	"regexp"
	"sort"
	"strings"
	"testing"

	"github.com/tinode/chat/pbx"
	"github.com/tinode/chat/server/auth"
	kit "github.com/tinode/chat/server/zzverifkit"
	"google.golang.org/protobuf/encoding/protojson"
	"google.golang.org/protobuf/proto"
	"google.golang.org/protobuf/reflect/protoreflect"
	"pgregory.net/rapid"
)

var c20ClientMembers = []string{"hi", "acc", "login", "sub", "leave", "pub", "get", "set", "del", "note"}
var c20ServerMembers = []string{"ctrl", "data", "meta", "pres", "info"}

type c20MsgCase struct {
	Side      string          `json:"side"` // "client" | "server"
	Msg       json.RawMessage `json:"msg"`  // JSON rendering of the generated message
	ParamsStr bool            `json:"params_str,omitempty"`
	Sweep     []string        `json:"sweep,omitempty"` // leaves to change one at a time
	Subs      int             `json:"subs"`            // generator facts used for the non-trivial rule only
	OffID     bool            `json:"off_id"`
}

// ---------------------------------------------------------------- self check

var c20Leaves = map[string]map[string]reflect.Type{} // side -> struct leaf -> type

func c20SelfCheck() error {
	for side, pair := range map[string]struct {
		st reflect.Type
		md protoreflect.MessageDescriptor
	}{
		"client": {reflect.TypeOf(ClientComMessage{}), (&pbx.ClientMsg{}).ProtoReflect().Descriptor()},
		"server": {reflect.TypeOf(ServerComMessage{}), (&pbx.ServerMsg{}).ProtoReflect().Descriptor()},
	} {
		sl := map[string]reflect.Type{}
		c20StructLeaves(pair.st, "", sl)
		pl := map[string]bool{}
		c20PbLeaves(pair.md, "", pl)
		for p := range sl {
			ex := c20Excluded(p)
			switch {
			case !pl[p] && ex == nil:
				return fmt.Errorf("JSON field %s has no protobuf counterpart and is not in c20NotCarried: review model.proto", p)
			case !pl[p] && ex.Kind != "schema":
				return fmt.Errorf("JSON field %s has no protobuf counterpart but is listed as %q", p, ex.Kind)
			case pl[p] && ex != nil && ex.Kind == "schema":
				return fmt.Errorf("JSON field %s is listed as missing from the schema but the schema table maps it", p)
			}
		}
		for p := range pl {
			if _, ok := sl[p]; !ok {
				return fmt.Errorf("protobuf field mapped to %s has no JSON-tagged struct field: fix c20Schema", p)
			}
		}
		c20Leaves[side] = sl
	}
	for _, e := range c20NotCarried {
		hit := false
		for _, sl := range c20Leaves {
			for p := range sl {
				if x := c20Excluded(p); x != nil && x.Pattern == e.Pattern {
					hit = true
				}
			}
		}
		if !hit {
			return fmt.Errorf("exclusion %s matches no field", e.Pattern)
		}
	}
	return nil
}

// c20LeavesUnder lists the sweepable leaves below a top-level member (sorted).
func c20LeavesUnder(side string, members ...string) []string {
	var out []string
	for p := range c20Leaves[side] {
		if c20Excluded(p) != nil {
			continue
		}
		for _, m := range members {
			if strings.HasPrefix(p, m+".") {
				out = append(out, p)
			}
		}
	}
	sort.Strings(out)
	return out
}

func c20ReportExclusions(r *kit.Run) {
	var lst []string
	for _, e := range c20NotCarried {
		lst = append(lst, e.Pattern+" ["+e.Kind+"]: "+e.Why)
	}
	r.Extra("not_carried", lst)
	r.Extra("value_notes", c20ValueNotes)
}

// ---------------------------------------------------------------- building messages from a case

func c20FixClient(m *ClientComMessage) {
	if m.Extra != nil {
		m.AuthLvl = int(auth.ParseAuthLevel(m.Extra.AuthLevel))
	} else {
		m.AuthLvl = 0
	}
}

func c20BuildClient(c c20MsgCase) (*ClientComMessage, error) {
	var m ClientComMessage
	if err := json.Unmarshal(c.Msg, &m); err != nil {
		return nil, err
	}
	c20ExpandStruct(reflect.ValueOf(&m).Elem()) // bytes that are not UTF-8 inside 'any' values
	c20FixClient(&m)
	return &m, nil
}

func c20BuildServer(c c20MsgCase) (*ServerComMessage, error) {
	var m ServerComMessage
	if err := json.Unmarshal(c.Msg, &m); err != nil {
		return nil, err
	}
	c20ExpandStruct(reflect.ValueOf(&m).Elem()) // bytes that are not UTF-8 inside 'any' values
	if c.ParamsStr && m.Ctrl != nil {
		if pm, ok := m.Ctrl.Params.(map[string]any); ok {
			sm := map[string]string{}
			for k, v := range pm {
				sm[k] = fmt.Sprint(v)
			}
			m.Ctrl.Params = sm
		}
	}
	return &m, nil
}

// ---------------------------------------------------------------- one pass through the converters

type c20Pass struct {
	In   map[string]any // tree of the struct handed to the serialiser
	Pb   map[string]any // tree of the protobuf message after the wire
	Back map[string]any // tree of the struct decoded from it
	Wire []byte
}

type c20Finding struct {
	Sig, Msg string
}

func c20Guard(name string, f func()) (fd *c20Finding) {
	defer func() {
		if p := recover(); p != nil {
			fd = &c20Finding{"panic:" + name, fmt.Sprintf("%s panicked: %v", name, p)}
		}
	}()
	f()
	return nil
}

func c20PassClient(m *ClientComMessage) (ps c20Pass, fd *c20Finding) {
	ps.In = c20TreeOf(m)
	var p *pbx.ClientMsg
	if fd = c20Guard("pbCliSerialize", func() { p = pbCliSerialize(m) }); fd != nil {
		return
	}
	if p == nil {
		return ps, &c20Finding{"pbCliSerialize:nil", "pbCliSerialize returned nil for a message with a member set"}
	}
	pw, err := c20Wire(p, &pbx.ClientMsg{})
	if err != nil {
		return ps, &c20Finding{"wire:client", "protobuf wire round trip failed: " + err.Error()}
	}
	ps.Wire, _ = proto.Marshal(pw)
	ps.Pb = c20PbTree(pw.ProtoReflect())
	var back *ClientComMessage
	if fd = c20Guard("pbCliDeserialize", func() { back = pbCliDeserialize(pw) }); fd != nil {
		return
	}
	c20FixClient(back)
	ps.Back = c20TreeOf(back)
	return
}

func c20PassServer(m *ServerComMessage) (ps c20Pass, fd *c20Finding) {
	ps.In = c20TreeOf(m)
	var p *pbx.ServerMsg
	if fd = c20Guard("pbServSerialize", func() { p = pbServSerialize(m) }); fd != nil {
		return
	}
	pw, err := c20Wire(p, &pbx.ServerMsg{})
	if err != nil {
		return ps, &c20Finding{"wire:server", "protobuf wire round trip failed: " + err.Error()}
	}
	ps.Wire, _ = proto.Marshal(pw)
	ps.Pb = c20PbTree(pw.ProtoReflect())
	var back *ServerComMessage
	if fd = c20Guard("pbServDeserialize", func() { back = pbServDeserialize(pw) }); fd != nil {
		return
	}
	ps.Back = c20TreeOf(back)
	return
}

var c20NotJSONRe = regexp.MustCompile(`!notjson:([A-Za-z0-9+/=]+)`)

// c20DiffFindings turns tree differences into findings attributed to one converter.
func c20DiffFindings(conv string, want, got map[string]any, what string) []c20Finding {
	var ds []c20D
	c20Diff("", want, got, &ds)
	var out []c20Finding
	for _, d := range ds {
		sig := conv + ":" + d.Path
		if strings.HasPrefix(d.Want, "t:") && strings.HasPrefix(d.Got, "t:") {
			var ws, wn, gs, gn int64
			fmt.Sscanf(d.Want, "t:%d.%d", &ws, &wn)
			fmt.Sscanf(d.Got, "t:%d.%d", &gs, &gn)
			if ws == gs && wn%1000000 != 0 && gn == wn/1000000*1000000 && strings.HasSuffix(conv, "Serialize") && !strings.HasSuffix(conv, "Deserialize") {
				continue // the schema carries milliseconds: truncating finer input is what a serialiser must do
			}
			if ws == gs && wn/1000000 == gn {
				sig = conv + ":time-ms-read-as-ns"
			}
		}
		note := ""
		if m := c20NotJSONRe.FindStringSubmatch(d.Got); m != nil {
			if raw, err := base64.StdEncoding.DecodeString(m[1]); err == nil {
				note = fmt.Sprintf(" (the bytes %q in the protobuf member are not JSON: a gRPC client cannot decode what a JSON client receives)", raw)
			}
		}
		out = append(out, c20Finding{sig, fmt.Sprintf("%s: field %s: %s has %s, %s%s", conv, d.Path, what, d.Want, "output has "+d.Got, note)})
	}
	return out
}

func c20MakeExec(r *kit.Run) func(c20MsgCase) kit.Outcome {
	return func(c c20MsgCase) kit.Outcome {
		o := kit.Outcome{}
		var finds []c20Finding
		add := func(f ...c20Finding) { finds = append(finds, f...) }

		type passFn func(mutate string) (c20Pass, *c20Finding, error)
		var run passFn
		var serName, deserName string
		if c.Side == "client" {
			serName, deserName = "pbCliSerialize", "pbCliDeserialize"
			run = func(mutate string) (c20Pass, *c20Finding, error) {
				m, err := c20BuildClient(c)
				if err != nil {
					return c20Pass{}, nil, err
				}
				if mutate != "" {
					c20MutateLeaf(reflect.ValueOf(m).Elem(), mutate)
					c20FixClient(m)
				}
				ps, fd := c20PassClient(m)
				return ps, fd, nil
			}
		} else {
			serName, deserName = "pbServSerialize", "pbServDeserialize"
			run = func(mutate string) (c20Pass, *c20Finding, error) {
				m, err := c20BuildServer(c)
				if err != nil {
					return c20Pass{}, nil, err
				}
				if mutate != "" {
					c20MutateLeaf(reflect.ValueOf(m).Elem(), mutate)
				}
				ps, fd := c20PassServer(m)
				return ps, fd, nil
			}
		}
		base, fd, err := run("")
		if err != nil {
			o.Skip = true
			return o
		}
		member := "?"
		var probe map[string]json.RawMessage
		_ = json.Unmarshal(c.Msg, &probe)
		for k, raw := range probe {
			if k != "extra" && string(raw) != "null" {
				member = k
			}
		}
		o.Classes = append(o.Classes, c.Side+":"+member)
		{
			var built any
			if c.Side == "client" {
				built, _ = c20BuildClient(c)
			} else {
				built, _ = c20BuildServer(c)
			}
			sc := map[string]bool{}
			c20StrClasses(reflect.ValueOf(built), sc)
			for k := range sc {
				o.Classes = append(o.Classes, k)
			}
			sort.Strings(o.Classes[1:])
		}
		if c.Subs >= 3 {
			o.Classes = append(o.Classes, "subs>=3")
		}
		o.NonTrivial = c.Subs >= 3 || c.OffID
		if fd != nil {
			add(*fd)
		} else {
			add(c20DiffFindings(serName, base.In, base.Pb, "JSON rendering")...)
			add(c20DiffFindings(deserName, base.Pb, base.Back, "protobuf message")...)
			// the same request as JSON text and as protobuf: compare what the server ends up holding
			if c.Side == "client" && len(finds) == 0 {
				var mj ClientComMessage
				m, _ := c20BuildClient(c)
				js, _ := json.Marshal(m)
				if json.Unmarshal(js, &mj) == nil {
					add(c20DiffFindings("json-vs-grpc", c20TreeOf(&mj), base.Back, "request decoded from JSON")...)
				}
			}
			// second lap: what was decoded must serialise to the same protobuf message
			if len(finds) == 0 {
				var lap c20Pass
				var lfd *c20Finding
				if c.Side == "client" {
					pm := &pbx.ClientMsg{}
					_ = proto.Unmarshal(base.Wire, pm)
					var m2 *ClientComMessage
					_ = c20Guard("pbCliDeserialize", func() { m2 = pbCliDeserialize(pm) })
					if m2 != nil {
						c20FixClient(m2)
						lap, lfd = c20PassClient(m2)
					}
				} else {
					pm := &pbx.ServerMsg{}
					_ = proto.Unmarshal(base.Wire, pm)
					var m2 *ServerComMessage
					_ = c20Guard("pbServDeserialize", func() { m2 = pbServDeserialize(pm) })
					if m2 != nil {
						lap, lfd = c20PassServer(m2)
					}
				}
				if lfd != nil {
					add(*lfd)
				} else if lap.Pb != nil {
					add(c20DiffFindings(serName, base.Pb, lap.Pb, "first protobuf message")...)
				}
			}
		}
		// sensitivity sweep
		for _, leaf := range c.Sweep {
			if c20Excluded(leaf) != nil {
				continue
			}
			mp, mfd, err := run(leaf)
			if err != nil {
				continue
			}
			if reflect.DeepEqual(mp.In, base.In) {
				o.Classes = append(o.Classes, "sweep:no-op") // harness could not change the meaning of this leaf
				continue
			}
			o.Classes = append(o.Classes, "sweep:leaf")
			switch {
			case mfd != nil:
				add(c20Finding{mfd.Sig, mfd.Msg + " (after changing only " + leaf + ")"})
			case fd != nil:
				// base pass did not complete; nothing to compare with
			case reflect.DeepEqual(mp.Pb, base.Pb):
				add(c20Finding{serName + ":" + leaf, fmt.Sprintf("%s: two messages differing only in %s map to the same protobuf message: the field is not transferred", serName, leaf)})
			case reflect.DeepEqual(mp.Back, base.Back):
				add(c20Finding{deserName + ":" + leaf, fmt.Sprintf("%s: two protobuf messages differing only in the counterpart of %s decode to the same struct: the field is not transferred", deserName, leaf)})
			}
		}
		if len(finds) == 0 {
			return o
		}
		for i := range finds {
			if strings.HasPrefix(finds[i].Sig, "panic:") {
				finds[i].Sig += ":" + member
			}
			if c.ParamsStr && finds[i].Sig == "pbServSerialize:ctrl.params" {
				finds[i].Sig += ":string-map"
			}
		}
		pick := finds[0]
		for _, f := range finds {
			if !r.IsKnown(f.Sig) {
				pick = f
				break
			}
		}
		o.Viol = kit.V(pick.Sig, "%s [%s message %s]", pick.Msg, c.Side, string(c.Msg))
		return o
	}
}

// ---------------------------------------------------------------- struct-first generators

func c20GenCase(side, force string, full bool, nSweep int) func(rt *rapid.T) c20MsgCase {
	return func(rt *rapid.T) c20MsgCase {
		c := c20MsgCase{Side: side}
		var info c20GenInfo
		var member string
		var root any
		if side == "client" {
			m := &ClientComMessage{}
			if member = force; member == "" {
				member = rapid.SampledFrom(c20ClientMembers).Draw(rt, "member")
			}
			f, _ := c20FieldByJSON(reflect.ValueOf(m).Elem(), member)
			f.Set(reflect.New(f.Type().Elem()))
			c20Gen(rt, f.Elem(), member, full, &info)
			if full || rapid.IntRange(0, 3).Draw(rt, "extra") == 0 {
				m.Extra = &MsgClientExtra{}
				c20Gen(rt, reflect.ValueOf(m.Extra).Elem(), "extra", full, &info)
			}
			root = m
		} else {
			m := &ServerComMessage{}
			if member = force; member == "" {
				member = rapid.SampledFrom(c20ServerMembers).Draw(rt, "member")
			}
			f, _ := c20FieldByJSON(reflect.ValueOf(m).Elem(), member)
			f.Set(reflect.New(f.Type().Elem()))
			c20InitFresh(f.Elem())
			c20Gen(rt, f.Elem(), member, full, &info)
			root = m
		}
		c.Msg, _ = json.Marshal(root)
		c.ParamsStr, c.Subs, c.OffID = info.ParamsStr, info.SubStructs, info.OffByOneID
		leaves := c20LeavesUnder(side, member, "extra")
		if side == "server" {
			leaves = c20LeavesUnder(side, member)
		}
		for i := 0; i < nSweep && len(leaves) > 0; i++ {
			c.Sweep = append(c.Sweep, rapid.SampledFrom(leaves).Draw(rt, "leaf"))
		}
		return c
	}
}

func c20RunMsgUnit(t *testing.T, unit, side string) {
	if err := c20SelfCheck(); err != nil {
		t.Fatalf("HARNESS self-check failed (schema table out of date, not a violation): %v", err)
	}
	r := kit.Begin("C20", unit)
	defer r.Flush()
	c20ReportExclusions(r)
	kit.CheckRun(t, r, c20GenCase(side, "", false, 4), c20MakeExec(r))
}

func TestC20Client(t *testing.T) { c20RunMsgUnit(t, "TestC20Client", "client") }
func TestC20Server(t *testing.T) { c20RunMsgUnit(t, "TestC20Server", "server") }

// TestC20SweepAll changes every JSON-tagged leaf of every message type, one at a time, on an empty
// base (only the member allocated) and on generated bases with every optional member present.
func TestC20SweepAll(t *testing.T) {
	if err := c20SelfCheck(); err != nil {
		t.Fatalf("HARNESS self-check failed (schema table out of date, not a violation): %v", err)
	}
	r := kit.Begin("C20", "TestC20SweepAll")
	defer r.Flush()
	c20ReportExclusions(r)
	exec := c20MakeExec(r)
	var rp c20MsgCase
	if ok, err := kit.ReplayCase("TestC20SweepAll", &rp); ok {
		if kit.IsOtherUnit(err) {
			t.Skip("replay file is for another unit")
		}
		if err != nil {
			t.Fatalf("cannot load replay: %v", err)
		}
		o := exec(rp)
		r.Case(kit.Hash(rp), o.NonTrivial, o.Classes...)
		if o.Viol != nil {
			if r.Violation(o.Viol, rp) {
				fmt.Printf("REPLAY-KNOWN sig=%s %s\n", o.Viol.Sig, o.Viol.Msg)
				return
			}
			fmt.Printf("REPLAY-VIOLATION sig=%s %s\n", o.Viol.Sig, o.Viol.Msg)
			t.Fatalf("violation %s: %s", o.Viol.Sig, o.Viol.Msg)
		}
		fmt.Printf("REPLAY-OK nontrivial=%v classes=%v\n", o.NonTrivial, o.Classes)
		return
	}
	nFull := kit.N(3)
	failed := false
	swept := map[string]bool{}
	for _, side := range []string{"client", "server"} {
		members := c20ClientMembers
		if side == "server" {
			members = c20ServerMembers
		}
		for _, member := range members {
			var bases []c20MsgCase
			// empty base
			{
				c := c20MsgCase{Side: side}
				if side == "client" {
					m := &ClientComMessage{}
					f, _ := c20FieldByJSON(reflect.ValueOf(m).Elem(), member)
					f.Set(reflect.New(f.Type().Elem()))
					c.Msg, _ = json.Marshal(m)
				} else {
					m := &ServerComMessage{}
					f, _ := c20FieldByJSON(reflect.ValueOf(m).Elem(), member)
					f.Set(reflect.New(f.Type().Elem()))
					c20InitFresh(f.Elem())
					c.Msg, _ = json.Marshal(m)
				}
				bases = append(bases, c)
			}
			// full bases: deterministic examples of the rapid generator restricted to this member
			gen := rapid.Custom(c20GenCase(side, member, true, 0))
			for k := 0; k < nFull; k++ {
				bases = append(bases, gen.Example(1000*k+len(member)))
			}
			leaves := c20LeavesUnder(side, member)
			if side == "client" {
				leaves = c20LeavesUnder(side, member, "extra")
			}
			for _, b := range bases {
				for _, leaf := range leaves {
					c := b
					c.Sweep = []string{leaf}
					c.Subs = 3 // every case changes exactly one leaf of a message: all count as non-trivial
					o := exec(c)
					swept[side+":"+leaf] = true
					r.Case(kit.Hash(c), true, o.Classes...)
					if o.Viol != nil && !r.Violation(o.Viol, c) {
						failed = true
						t.Errorf("violation %s: %s", o.Viol.Sig, o.Viol.Msg)
					}
				}
			}
		}
	}
	r.Extra("leaves_swept", len(swept))
	r.Extra("exhaustive_over_leaves", true)
	if failed {
		t.FailNow()
	}
}

// ---------------------------------------------------------------- protobuf-first

type c20PbCase struct {
	Side string `json:"side"`
	Wire []byte `json:"wire"` // protobuf wire bytes of the generated message
	Text string `json:"text"` // protojson rendering, for the reader only
	Subs int    `json:"subs"`
}

// JSON texts a gRPC client may put into a bytes member that no Go encoder would produce: escaped
// surrogate pairs, lone surrogates (decoded as U+FFFD), escaped controls, optional escapes, white space.
var c20JSONSpellings = []string{`"\ud83d\ude00"`, `"\ud800"`, `"x\udc00\ud800y"`, `"\u0000\u001f\u007f"`, `"a\/b"`, `"\u2028\u2029\ufeff"`, `"\b\f\n\r\t"`,
	`{"a":"\u0007"}`, `["\u001b[0m", "\u00e9"]`, ` "sp" `, `"\u0022\u005c"`, "\"\x7f\u0085\U000e0001\U0010ffff\""}

// c20GenJSONText draws the JSON text of a protobuf bytes member.
func c20GenJSONText(rt *rapid.T, depth int) string {
	if rapid.IntRange(0, 9).Draw(rt, "jtext") == 0 {
		return rapid.SampledFrom(c20JSONSpellings).Draw(rt, "jspelling")
	}
	s, _ := c20CanonJSON(c20ExpandAny(c20GenJSON(rt, depth)))
	return s
}

func c20GenPbValue(rt *rapid.T, f c20F, fd protoreflect.FieldDescriptor, path string) (protoreflect.Value, bool) {
	switch f.kind {
	case "s":
		var s string
		switch {
		case c20IsModePath(path):
			s = rapid.SampledFrom(c20Modes).Draw(rt, "mode")
		case c20IsIDPath(path):
			s, _ = c20GenID(rt)
		default:
			s = c20GenString(rt, path)
		}
		return protoreflect.ValueOfString(s), true
	case "b":
		return protoreflect.ValueOfBool(rapid.Bool().Draw(rt, "b")), true
	case "i":
		return protoreflect.ValueOfInt32(int32(c20GenInt(rt))), true
	case "ms":
		return protoreflect.ValueOfInt64(c20GenTime(rt).UnixMilli()), true
	case "y":
		if strings.HasSuffix(path, "payload") {
			return protoreflect.ValueOfBytes([]byte(c20GenJSONText(rt, 1))), true
		}
		return protoreflect.ValueOfBytes(rapid.SliceOfN(rapid.Byte(), 1, 8).Draw(rt, "y")), true
	case "j":
		return protoreflect.ValueOfBytes([]byte(c20GenJSONText(rt, 2))), true
	case "e":
		vals := fd.Enum().Values()
		for {
			n := vals.Get(rapid.IntRange(0, vals.Len()-1).Draw(rt, "enum")).Number()
			if path == "acc.authlevel" && n == 30 {
				continue // ROOT is documented as unsupported in {acc}
			}
			return protoreflect.ValueOfEnum(n), true
		}
	}
	return protoreflect.Value{}, false
}

func c20GenPb(rt *rapid.T, m protoreflect.Message, path string, subs *int) {
	tbl := c20Schema[string(m.Descriptor().FullName())]
	fds := m.Descriptor().Fields()
	var oneofPick protoreflect.FieldDescriptor
	if oo := m.Descriptor().Oneofs(); oo.Len() > 0 {
		of := oo.Get(0).Fields()
		oneofPick = of.Get(rapid.IntRange(0, of.Len()-1).Draw(rt, "oneof"))
	}
	seenWhen := false
	for i := 0; i < fds.Len(); i++ {
		fd := fds.Get(i)
		f := tbl[string(fd.Name())]
		if f.kind == "-" {
			continue
		}
		if fd.ContainingOneof() != nil && fd != oneofPick {
			continue
		}
		p := path
		if f.kind != "flat" {
			p = c20Join(path, f.key)
		}
		if f.kind != "m" && f.kind != "mm" && f.kind != "flat" && !strings.HasPrefix(f.kind, "seen") && c20Excluded(p) != nil {
			continue
		}
		if fd.ContainingOneof() == nil && rapid.IntRange(0, 9).Draw(rt, "present") >= 6 {
			continue
		}
		switch f.kind {
		case "m", "flat":
			*subs++
			c20GenPb(rt, m.Mutable(fd).Message(), p, subs)
		case "mm":
			*subs++
			n := rapid.IntRange(1, 3).Draw(rt, "n")
			l := m.Mutable(fd).List()
			for k := 0; k < n; k++ {
				e := l.NewElement()
				c20GenPb(rt, e.Message(), p+"[]", subs)
				l.Append(e)
			}
		case "ss":
			n := rapid.IntRange(1, 3).Draw(rt, "n")
			l := m.Mutable(fd).List()
			for k := 0; k < n; k++ {
				l.Append(protoreflect.ValueOfString(c20GenString(rt, p)))
			}
		case "jm":
			mp := m.Mutable(fd).Map()
			for k, v := range c20GenJSONMap(rt, 1, false) {
				s, _ := c20CanonJSON(c20ExpandAny(v))
				mp.Set(protoreflect.ValueOfString(k).MapKey(), protoreflect.ValueOfBytes([]byte(s)))
			}
		case "seen.when":
			seenWhen = true
			m.Set(fd, protoreflect.ValueOfInt64(c20GenTime(rt).UnixMilli()))
		case "seen.ua":
			if seenWhen { // user agent of the last appearance only accompanies its time
				m.Set(fd, protoreflect.ValueOfString(c20GenString(rt, p)))
			}
		default:
			if v, ok := c20GenPbValue(rt, f, fd, p); ok {
				m.Set(fd, v)
			}
		}
	}
}

func c20GenPbCase(side string) func(rt *rapid.T) c20PbCase {
	return func(rt *rapid.T) c20PbCase {
		var msg proto.Message = &pbx.ClientMsg{}
		if side == "server" {
			msg = &pbx.ServerMsg{}
		}
		c := c20PbCase{Side: side}
		c20GenPb(rt, msg.ProtoReflect(), "", &c.Subs)
		c.Wire, _ = proto.Marshal(msg)
		c.Text = protojson.MarshalOptions{}.Format(msg)
		return c
	}
}

func c20MakePbExec(r *kit.Run) func(c20PbCase) kit.Outcome {
	return func(c c20PbCase) kit.Outcome {
		o := kit.Outcome{NonTrivial: c.Subs >= 3}
		var finds []c20Finding
		if c.Side == "client" {
			p := &pbx.ClientMsg{}
			if proto.Unmarshal(c.Wire, p) != nil {
				o.Skip = true
				return o
			}
			tp := c20PbTree(p.ProtoReflect())
			var d *ClientComMessage
			if fd := c20Guard("pbCliDeserialize", func() { d = pbCliDeserialize(p) }); fd != nil {
				finds = append(finds, *fd)
			} else {
				c20FixClient(d)
				finds = append(finds, c20DiffFindings("pbCliDeserialize", tp, c20TreeOf(d), "protobuf message")...)
				ps, fd := c20PassClient(d)
				if fd != nil {
					if len(tp) > 0 || fd.Sig != "pbCliSerialize:nil" {
						finds = append(finds, *fd)
					}
				} else {
					finds = append(finds, c20DiffFindings("pbCliSerialize", ps.In, ps.Pb, "JSON rendering")...)
					if len(finds) == 0 {
						finds = append(finds, c20DiffFindings("pb-roundtrip:client", tp, ps.Pb, "original protobuf message")...)
					}
				}
			}
			for k := range tp {
				if k != "extra" {
					o.Classes = append(o.Classes, "pb-client:"+k)
				}
			}
		} else {
			p := &pbx.ServerMsg{}
			if proto.Unmarshal(c.Wire, p) != nil {
				o.Skip = true
				return o
			}
			tp := c20PbTree(p.ProtoReflect())
			var d *ServerComMessage
			if fd := c20Guard("pbServDeserialize", func() { d = pbServDeserialize(p) }); fd != nil {
				finds = append(finds, *fd)
			} else {
				finds = append(finds, c20DiffFindings("pbServDeserialize", tp, c20TreeOf(d), "protobuf message")...)
				ps, fd := c20PassServer(d)
				if fd != nil {
					finds = append(finds, *fd)
				} else {
					finds = append(finds, c20DiffFindings("pbServSerialize", ps.In, ps.Pb, "JSON rendering")...)
					if len(finds) == 0 {
						finds = append(finds, c20DiffFindings("pb-roundtrip:server", tp, ps.Pb, "original protobuf message")...)
					}
				}
			}
			for k := range tp {
				o.Classes = append(o.Classes, "pb-server:"+k)
			}
		}
		if len(finds) == 0 {
			return o
		}
		member := "?"
		{
			var pm proto.Message = &pbx.ClientMsg{}
			if c.Side == "server" {
				pm = &pbx.ServerMsg{}
			}
			if proto.Unmarshal(c.Wire, pm) == nil {
				if fd := pm.ProtoReflect().WhichOneof(pm.ProtoReflect().Descriptor().Oneofs().Get(0)); fd != nil {
					member = string(fd.Name())
				}
			}
		}
		for i := range finds {
			if strings.HasPrefix(finds[i].Sig, "panic:") {
				finds[i].Sig += ":" + member
			}
		}
		pick := finds[0]
		for _, f := range finds {
			if !r.IsKnown(f.Sig) {
				pick = f
				break
			}
		}
		o.Viol = kit.V(pick.Sig, "%s [%s protobuf message %s]", pick.Msg, c.Side, c.Text)
		return o
	}
}

func c20RunPbUnit(t *testing.T, unit, side string) {
	if err := c20SelfCheck(); err != nil {
		t.Fatalf("HARNESS self-check failed (schema table out of date, not a violation): %v", err)
	}
	r := kit.Begin("C20", unit)
	defer r.Flush()
	c20ReportExclusions(r)
	kit.CheckRun(t, r, c20GenPbCase(side), c20MakePbExec(r))
}

func TestC20PbClient(t *testing.T) { c20RunPbUnit(t, "TestC20PbClient", "client") }
func TestC20PbServer(t *testing.T) { c20RunPbUnit(t, "TestC20PbServer", "server") }
