package main

// C20 — protobuf <-> JSON message schemas.
//
// This file is the harness's own reading of pbx/model.proto against the JSON tags in
// datamodel.go: for every protobuf field, the JSON key that carries the same information and how
// the value is encoded. It is used to turn a pbx message into the same kind of "meaning tree" that
// c20StructTree builds from the Go structs, so that each converter call can be judged on its own
// (input tree == output tree) without trusting the converter of the opposite direction.
//
// A start-up self check (c20SelfCheck) fails the run (exit 2, not a violation) if model.proto or
// datamodel.go gains a field that this table / the exclusion list does not know.

import (
	"encoding/base64"
	"encoding/json"
	"fmt"
	"sort"
	"strings"

	"github.com/tinode/chat/pbx"
	"google.golang.org/protobuf/proto"
	"google.golang.org/protobuf/reflect/protoreflect"
)

// kinds: s string, b bool, i int32, ms int64 milliseconds, y opaque bytes, j bytes holding JSON,
// jm map<string,bytes> holding JSON, m message, mm repeated message, ss repeated string, e enum,
// flat message whose members belong to the parent object (Go embedded struct), seen.when / seen.ua
// the two flattened members of MsgLastSeenInfo, "-" no JSON counterpart.
type c20F struct{ key, kind string }

var c20Schema = map[string]map[string]c20F{
	"pbx.DefaultAcsMode": {"auth": {"auth", "s"}, "anon": {"anon", "s"}},
	"pbx.AccessMode":     {"want": {"want", "s"}, "given": {"given", "s"}},
	"pbx.SetSub":         {"user_id": {"user", "s"}, "mode": {"mode", "s"}},
	"pbx.ClientCred":     {"method": {"meth", "s"}, "value": {"val", "s"}, "response": {"resp", "s"}, "params": {"params", "jm"}},
	"pbx.SetDesc":        {"default_acs": {"defacs", "m"}, "public": {"public", "j"}, "private": {"private", "j"}, "trusted": {"trusted", "j"}},
	"pbx.GetOpts": {"if_modified_since": {"ims", "ms"}, "user": {"user", "s"}, "topic": {"topic", "s"}, "since_id": {"since", "i"},
		"before_id": {"before", "i"}, "limit": {"limit", "i"}},
	"pbx.GetQuery": {"what": {"what", "s"}, "desc": {"desc", "m"}, "sub": {"sub", "m"}, "data": {"data", "m"}},
	"pbx.SetQuery": {"desc": {"desc", "m"}, "sub": {"sub", "m"}, "tags": {"tags", "ss"}, "cred": {"cred", "m"}},
	"pbx.SeqRange": {"low": {"low", "i"}, "hi": {"hi", "i"}},
	"pbx.ClientHi": {"id": {"id", "s"}, "user_agent": {"ua", "s"}, "ver": {"ver", "s"}, "device_id": {"dev", "s"}, "lang": {"lang", "s"},
		"platform": {"platf", "s"}, "background": {"bkg", "b"}},
	"pbx.ClientAcc": {"id": {"id", "s"}, "user_id": {"user", "s"}, "scheme": {"scheme", "s"}, "secret": {"secret", "y"}, "login": {"login", "b"},
		"tags": {"tags", "ss"}, "desc": {"desc", "m"}, "cred": {"cred", "mm"},
		"token": {"", "-"}, // legacy: no member of MsgClientAcc corresponds to it
		"state": {"status", "s"}, "auth_level": {"authlevel", "e"}, "tmp_scheme": {"tmpscheme", "s"}, "tmp_secret": {"tmpsecret", "y"}},
	"pbx.ClientLogin": {"id": {"id", "s"}, "scheme": {"scheme", "s"}, "secret": {"secret", "y"}, "cred": {"cred", "mm"}},
	"pbx.ClientSub":   {"id": {"id", "s"}, "topic": {"topic", "s"}, "set_query": {"set", "m"}, "get_query": {"get", "m"}},
	"pbx.ClientLeave": {"id": {"id", "s"}, "topic": {"topic", "s"}, "unsub": {"unsub", "b"}},
	"pbx.ClientPub":   {"id": {"id", "s"}, "topic": {"topic", "s"}, "no_echo": {"noecho", "b"}, "head": {"head", "jm"}, "content": {"content", "j"}},
	"pbx.ClientGet":   {"id": {"id", "s"}, "topic": {"topic", "s"}, "query": {"", "flat"}},
	"pbx.ClientSet":   {"id": {"id", "s"}, "topic": {"topic", "s"}, "query": {"", "flat"}},
	"pbx.ClientDel": {"id": {"id", "s"}, "topic": {"topic", "s"}, "what": {"what", "e"}, "del_seq": {"delseq", "mm"}, "user_id": {"user", "s"},
		"cred": {"cred", "m"}, "hard": {"hard", "b"}},
	"pbx.ClientNote": {"topic": {"topic", "s"}, "what": {"what", "e"}, "seq_id": {"seq", "i"}, "unread": {"unread", "i"}, "event": {"event", "e"},
		"payload": {"payload", "y"}},
	"pbx.ClientExtra": {"attachments": {"attachments", "ss"}, "on_behalf_of": {"obo", "s"}, "auth_level": {"authlevel", "e"}},
	"pbx.ClientMsg": {"hi": {"hi", "m"}, "acc": {"acc", "m"}, "login": {"login", "m"}, "sub": {"sub", "m"}, "leave": {"leave", "m"}, "pub": {"pub", "m"},
		"get": {"get", "m"}, "set": {"set", "m"}, "del": {"del", "m"}, "note": {"note", "m"}, "extra": {"extra", "m"}},

	"pbx.ServerCred": {"method": {"meth", "s"}, "value": {"val", "s"}, "done": {"done", "b"}},
	"pbx.TopicDesc": {"created_at": {"created", "ms"}, "updated_at": {"updated", "ms"}, "touched_at": {"touched", "ms"}, "defacs": {"defacs", "m"},
		"acs": {"acs", "m"}, "seq_id": {"seq", "i"}, "read_id": {"read", "i"}, "recv_id": {"recv", "i"}, "del_id": {"clear", "i"},
		"public": {"public", "j"}, "private": {"private", "j"}, "state": {"state", "s"},
		"state_at": {"", "-"}, // MsgTopicDesc has no such member
		"trusted":  {"trusted", "j"}, "is_chan": {"chan", "b"}, "online": {"online", "b"},
		"last_seen_time": {"seen", "seen.when"}, "last_seen_user_agent": {"seen", "seen.ua"}},
	"pbx.TopicSub": {"updated_at": {"updated", "ms"}, "deleted_at": {"deleted", "ms"}, "online": {"online", "b"}, "acs": {"acs", "m"},
		"read_id": {"read", "i"}, "recv_id": {"recv", "i"}, "public": {"public", "j"}, "trusted": {"trusted", "j"}, "private": {"private", "j"},
		"user_id": {"user", "s"}, "topic": {"topic", "s"}, "touched_at": {"touched", "ms"}, "seq_id": {"seq", "i"}, "del_id": {"clear", "i"},
		"last_seen_time": {"seen", "seen.when"}, "last_seen_user_agent": {"seen", "seen.ua"}},
	"pbx.DelValues":  {"del_id": {"clear", "i"}, "del_seq": {"delseq", "mm"}},
	"pbx.ServerCtrl": {"id": {"id", "s"}, "topic": {"topic", "s"}, "code": {"code", "i"}, "text": {"text", "s"}, "params": {"params", "jm"}},
	"pbx.ServerData": {"topic": {"topic", "s"}, "from_user_id": {"from", "s"}, "timestamp": {"ts", "ms"}, "deleted_at": {"deleted", "ms"},
		"seq_id": {"seq", "i"}, "head": {"head", "jm"}, "content": {"content", "j"}},
	"pbx.ServerPres": {"topic": {"topic", "s"}, "src": {"src", "s"}, "what": {"what", "e"}, "user_agent": {"ua", "s"}, "seq_id": {"seq", "i"},
		"del_id": {"clear", "i"}, "del_seq": {"delseq", "mm"}, "target_user_id": {"tgt", "s"}, "actor_user_id": {"act", "s"}, "acs": {"dacs", "m"}},
	"pbx.ServerMeta": {"id": {"id", "s"}, "topic": {"topic", "s"}, "desc": {"desc", "m"}, "sub": {"sub", "mm"}, "del": {"del", "m"},
		"tags": {"tags", "ss"}, "cred": {"cred", "mm"}},
	"pbx.ServerInfo": {"topic": {"topic", "s"}, "from_user_id": {"from", "s"}, "what": {"what", "e"}, "seq_id": {"seq", "i"}, "src": {"src", "s"},
		"event": {"event", "e"}, "payload": {"payload", "y"}},
	"pbx.ServerMsg": {"ctrl": {"ctrl", "m"}, "data": {"data", "m"}, "pres": {"pres", "m"}, "meta": {"meta", "m"}, "info": {"info", "m"},
		"topic": {"", "-"}}, // deprecated, never set by pbServSerialize, no JSON counterpart
}

// JSON spelling of every protobuf enum value.
var c20Enums = map[string]map[int32]string{
	"pbx.AuthLevel":       {0: "", 10: "anon", 20: "auth", 30: "root"},
	"pbx.ClientDel.What":  {0: "", 1: "msg", 2: "topic", 3: "sub", 4: "user", 5: "cred"},
	"pbx.InfoNote":        {0: "", 1: "read", 2: "recv", 3: "kp", 4: "call"},
	"pbx.CallEvent":       {0: "", 1: "accept", 2: "answer", 3: "hang-up", 4: "ice-candidate", 5: "invite", 6: "offer", 7: "ringing"},
	"pbx.ServerPres.What": {0: "", 1: "on", 2: "off", 3: "ua", 4: "upd", 5: "gone", 6: "acs", 7: "term", 8: "msg", 9: "read", 10: "recv", 11: "del", 12: "tags"},
}

// c20Excl is one field that is, by schema or by documented design, not transferred.
type c20Excl struct {
	Pattern string // JSON path; "*" matches one path segment
	Why     string
	Kind    string // "schema": model.proto has no such field; "n/a": documented as not applicable in that context
}

// Reviewed against pbx/model.proto and datamodel.go. Kept as short as the code allows.
var c20NotCarried = []c20Excl{
	{"get.del.*", "pbx.GetQuery has members what, desc, sub, data only: options of a 'del' query cannot be expressed (model.proto GetQuery)", "schema"},
	{"sub.get.del.*", "same GetQuery message inside ClientSub.get_query", "schema"},
	{"ctrl.ts", "pbx.ServerCtrl has no timestamp member", "schema"},
	{"meta.ts", "pbx.ServerMeta has no timestamp member", "schema"},
	{"meta.desc.acs.mode", "pbx.AccessMode has want and given only", "schema"},
	{"meta.sub[].acs.mode", "pbx.AccessMode has want and given only", "schema"},
	{"pres.dacs.mode", "pbx.AccessMode has want and given only", "schema"},
	// GetOpts is one shared message; datamodel.go:40-47 lists which options belong to which query and the
	// server answers 400 if the others are set (topic.go replyGetDesc/replyGetSub/replyGetData), so a
	// well-formed request never carries them and the converters transfer only the applicable ones.
	{"get.desc.user", "not an option of a 'desc' query (datamodel.go:40)", "n/a"},
	{"get.desc.topic", "not an option of a 'desc' query", "n/a"},
	{"get.desc.since", "not an option of a 'desc' query", "n/a"},
	{"get.desc.before", "not an option of a 'desc' query", "n/a"},
	{"get.desc.limit", "not an option of a 'desc' query (replyGetDesc rejects it)", "n/a"},
	{"get.sub.since", "not an option of a 'sub' query (replyGetSub rejects it)", "n/a"},
	{"get.sub.before", "not an option of a 'sub' query", "n/a"},
	{"get.data.user", "not an option of a 'data' query (replyGetData rejects it)", "n/a"},
	{"get.data.topic", "not an option of a 'data' query", "n/a"},
	{"get.data.ims", "not an option of a 'data' query", "n/a"},
	{"sub.get.desc.user", "as get.desc.user", "n/a"},
	{"sub.get.desc.topic", "as get.desc.topic", "n/a"},
	{"sub.get.desc.since", "as get.desc.since", "n/a"},
	{"sub.get.desc.before", "as get.desc.before", "n/a"},
	{"sub.get.desc.limit", "as get.desc.limit", "n/a"},
	{"sub.get.sub.since", "as get.sub.since", "n/a"},
	{"sub.get.sub.before", "as get.sub.before", "n/a"},
	{"sub.get.data.user", "as get.data.user", "n/a"},
	{"sub.get.data.topic", "as get.data.topic", "n/a"},
	{"sub.get.data.ims", "as get.data.ims", "n/a"},
}

// Value restrictions that are documented in the converter itself.
var c20ValueNotes = []string{
	"acc.authlevel=root is never generated: pbCliSerialize maps it to NONE with the comment 'No support for ROOT here' (pbconverter.go:268)",
	"extra.authlevel is serialised from the denormalised ClientComMessage.AuthLvl; the harness sets AuthLvl to the parsed extra.authlevel the way Session.dispatch does (session.go:499)",
	"auth level strings are compared by meaning (auth.ParseAuthLevel): 'AUTH' and 'auth' are the same level",
	"a present but entirely empty sub-structure is compared as absent; JSON null inside head/params maps is not generated",
	"desc.seen is generated with 'when' set whenever it is present (both construction sites in topic.go set it)",
	"text is generated with every control character 0x00-0x1f, DEL, U+0085, U+2028/2029, U+FEFF, the edges of the BMP and of the surrogate gap, characters outside the BMP (printable and not, up to U+10FFFF), quotes, backslashes and text that looks like an escape; values of type 'any' (content, public/private/trusted, head, params) also hold bytes that are not UTF-8 (spelled U+F8FF + two hex digits per byte inside a case): the JSON rendering, where encoding/json shows each such byte as U+FFFD, is the reference, and protobuf bytes that no JSON decoder accepts are a violation",
	"plain string members are generated as valid UTF-8 only: a protobuf string member cannot carry anything else (proto.Marshal refuses the whole message with 'string field contains invalid UTF-8' while the JSON rendering shows U+FFFD), and both decoders the server reads requests with (encoding/json, protobuf) only ever produce valid UTF-8",
	"protobuf-first cases also carry JSON texts no Go encoder produces (escaped surrogate pairs, lone surrogates, optional escapes, surrounding white space) in their bytes members",
}

var c20ExclCache = map[string]*c20Excl{}

func c20Excluded(path string) *c20Excl {
	if e, ok := c20ExclCache[path]; ok {
		return e
	}
	e := c20ExcludedSlow(path)
	c20ExclCache[path] = e
	return e
}

func c20ExcludedSlow(path string) *c20Excl {
	ps := strings.Split(path, ".")
	for i := range c20NotCarried {
		qs := strings.Split(c20NotCarried[i].Pattern, ".")
		if len(qs) != len(ps) {
			continue
		}
		ok := true
		for k := range qs {
			if qs[k] != "*" && qs[k] != ps[k] {
				ok = false
				break
			}
		}
		if ok {
			return &c20NotCarried[i]
		}
	}
	return nil
}

// ---------------------------------------------------------------- meaning trees
//
// A tree is map[string]any whose values are: leaf strings with a type prefix ("s:", "i:", "b:",
// "t:", "y:", "j:"), nested trees, or []any of trees / leaf strings. Zero values, empty containers and
// (after recursion) empty sub-trees are absent.

func c20CanonJSON(v any) (string, bool) {
	b, err := json.Marshal(v)
	if err != nil {
		return "!marshal:" + err.Error(), true
	}
	var x any
	if err := json.Unmarshal(b, &x); err != nil {
		return "!unmarshal:" + err.Error(), true
	}
	if x == nil {
		return "", false
	}
	b, _ = json.Marshal(x)
	return string(b), true
}

func c20CanonJSONBytes(raw []byte) (string, bool) {
	if len(raw) == 0 {
		return "", false
	}
	var x any
	if err := json.Unmarshal(raw, &x); err != nil {
		return "!notjson:" + base64.StdEncoding.EncodeToString(raw), true
	}
	if x == nil {
		return "", false
	}
	b, _ := json.Marshal(x)
	return string(b), true
}

func c20TimeLeaf(sec, nanos int64) string { return fmt.Sprintf("t:%d.%09d", sec, nanos) }

func c20PbTree(m protoreflect.Message) map[string]any {
	out := map[string]any{}
	if !m.IsValid() {
		return out
	}
	tbl := c20Schema[string(m.Descriptor().FullName())]
	if tbl == nil {
		panic("c20: no schema table for " + string(m.Descriptor().FullName()))
	}
	m.Range(func(fd protoreflect.FieldDescriptor, v protoreflect.Value) bool {
		f, ok := tbl[string(fd.Name())]
		if !ok {
			panic("c20: no schema entry for " + string(fd.FullName()))
		}
		switch f.kind {
		case "-":
			out["pbonly:"+string(fd.Name())] = "set"
		case "s":
			if v.String() != "" {
				out[f.key] = "s:" + v.String()
			}
		case "b":
			if v.Bool() {
				out[f.key] = "b:true"
			}
		case "i":
			if v.Int() != 0 {
				out[f.key] = fmt.Sprintf("i:%d", v.Int())
			}
		case "ms":
			if v.Int() > 0 {
				out[f.key] = c20TimeLeaf(v.Int()/1000, (v.Int()%1000)*1000000)
			}
		case "y":
			if len(v.Bytes()) > 0 {
				out[f.key] = "y:" + base64.StdEncoding.EncodeToString(v.Bytes())
			}
		case "j":
			if s, ok := c20CanonJSONBytes(v.Bytes()); ok {
				out[f.key] = "j:" + s
			}
		case "jm":
			mm := map[string]any{}
			v.Map().Range(func(k protoreflect.MapKey, e protoreflect.Value) bool {
				if s, ok := c20CanonJSONBytes(e.Bytes()); ok {
					if strings.HasPrefix(s, "!notjson:") {
						mm[k.String()] = s // keep the tree printable
					} else {
						mm[k.String()] = json.RawMessage(s)
					}
				}
				return true
			})
			if len(mm) > 0 {
				b, _ := json.Marshal(mm)
				out[f.key] = "j:" + string(b)
			}
		case "e":
			names := c20Enums[string(fd.Enum().FullName())]
			s, known := names[int32(v.Enum())]
			if !known {
				s = fmt.Sprintf("!enum%d", v.Enum())
			}
			if s != "" {
				out[f.key] = "s:" + s
			}
		case "m":
			if sub := c20PbTree(v.Message()); len(sub) > 0 {
				out[f.key] = sub
			}
		case "flat":
			for k, x := range c20PbTree(v.Message()) {
				out[k] = x
			}
		case "mm":
			l := v.List()
			var arr []any
			for i := 0; i < l.Len(); i++ {
				arr = append(arr, c20PbTree(l.Get(i).Message()))
			}
			if len(arr) > 0 {
				out[f.key] = arr
			}
		case "ss":
			l := v.List()
			var arr []any
			for i := 0; i < l.Len(); i++ {
				arr = append(arr, "s:"+l.Get(i).String())
			}
			if len(arr) > 0 {
				out[f.key] = arr
			}
		case "seen.when", "seen.ua":
			seen, _ := out["seen"].(map[string]any)
			if seen == nil {
				seen = map[string]any{}
			}
			if f.kind == "seen.when" {
				if v.Int() > 0 {
					seen["when"] = c20TimeLeaf(v.Int()/1000, (v.Int()%1000)*1000000)
				}
			} else if v.String() != "" {
				seen["ua"] = "s:" + v.String()
			}
			if len(seen) > 0 {
				out["seen"] = seen
			}
		default:
			panic("c20: bad kind " + f.kind)
		}
		return true
	})
	return out
}

// c20PbLeaves lists the JSON leaf paths that the protobuf schema can carry below the given message.
func c20PbLeaves(md protoreflect.MessageDescriptor, path string, out map[string]bool) {
	tbl := c20Schema[string(md.FullName())]
	if tbl == nil {
		panic("c20: no schema table for " + string(md.FullName()))
	}
	fds := md.Fields()
	if len(tbl) != fds.Len() {
		panic(fmt.Sprintf("c20: schema table for %s has %d entries, descriptor has %d fields", md.FullName(), len(tbl), fds.Len()))
	}
	for i := 0; i < fds.Len(); i++ {
		fd := fds.Get(i)
		f, ok := tbl[string(fd.Name())]
		if !ok {
			panic("c20: no schema entry for " + string(fd.FullName()))
		}
		p := f.key
		if path != "" {
			p = path + "." + f.key
		}
		switch f.kind {
		case "-":
		case "m":
			c20PbLeaves(fd.Message(), p, out)
		case "mm":
			c20PbLeaves(fd.Message(), p+"[]", out)
		case "flat":
			c20PbLeaves(fd.Message(), path, out)
		case "seen.when":
			out[p+".when"] = true
		case "seen.ua":
			out[p+".ua"] = true
		case "e":
			if c20Enums[string(fd.Enum().FullName())] == nil {
				panic("c20: no enum table for " + string(fd.Enum().FullName()))
			}
			vals := fd.Enum().Values()
			for k := 0; k < vals.Len(); k++ {
				if _, ok := c20Enums[string(fd.Enum().FullName())][int32(vals.Get(k).Number())]; !ok {
					panic("c20: enum value without JSON spelling: " + string(vals.Get(k).FullName()))
				}
			}
			out[p] = true
		default:
			out[p] = true
		}
	}
}

// c20Wire passes a message through the protobuf wire format, as gRPC does.
func c20Wire[M proto.Message](in M, fresh M) (M, error) {
	b, err := proto.Marshal(in)
	if err != nil {
		return fresh, err
	}
	return fresh, proto.Unmarshal(b, fresh)
}

// c20Diff lists the paths at which two trees differ.
type c20D struct {
	Path      string
	Want, Got string
}

func c20Show(v any) string {
	if v == nil {
		return "<absent>"
	}
	if s, ok := v.(string); ok {
		return s
	}
	b, _ := json.Marshal(v)
	return string(b)
}

func c20Diff(path string, want, got any, out *[]c20D) {
	wm, wok := want.(map[string]any)
	gm, gok := got.(map[string]any)
	if wok || gok {
		if want != nil && !wok || got != nil && !gok {
			*out = append(*out, c20D{path, c20Show(want), c20Show(got)})
			return
		}
		keys := map[string]bool{}
		for k := range wm {
			keys[k] = true
		}
		for k := range gm {
			keys[k] = true
		}
		ks := make([]string, 0, len(keys))
		for k := range keys {
			ks = append(ks, k)
		}
		sort.Strings(ks)
		for _, k := range ks {
			p := k
			if path != "" {
				p = path + "." + k
			}
			var w, g any
			if wm != nil {
				w = wm[k]
			}
			if gm != nil {
				g = gm[k]
			}
			c20Diff(p, w, g, out)
		}
		return
	}
	wl, wok := want.([]any)
	gl, gok := got.([]any)
	if wok || gok {
		if want != nil && !wok || got != nil && !gok {
			*out = append(*out, c20D{path, c20Show(want), c20Show(got)})
			return
		}
		n := len(wl)
		if len(gl) > n {
			n = len(gl)
		}
		for i := 0; i < n; i++ {
			var w, g any
			if i < len(wl) {
				w = wl[i]
			}
			if i < len(gl) {
				g = gl[i]
			}
			if _, isLeaf := w.(string); isLeaf || w == nil && g != nil && func() bool { _, l := g.(string); return l }() {
				if w != g {
					*out = append(*out, c20D{path, c20Show(want), c20Show(got)})
					return
				}
				continue
			}
			c20Diff(path+"[]", w, g, out)
		}
		return
	}
	if want != got {
		*out = append(*out, c20D{path, c20Show(want), c20Show(got)})
	}
}

var _ = pbx.AuthLevel_NONE
