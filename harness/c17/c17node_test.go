package main

// C17 (ii-c) — what ONE node does with every message the election protocol can hand it.
//
// A single real Cluster value runs its real failover loop (Cluster.run with electLeader,
// sendHealthChecks) inside a testing/synctest bubble. Its peers are configured but not connected,
// so every call it makes fails at once (a node alone in its partition). The generated history
// feeds it what the network could deliver, in any order and with any terms: health checks from any
// configured node (same leader with a higher term, another leader with the same term, stale
// terms, other node lists), vote requests (new, repeated, stale), and the passing of time (missed
// heartbeats, elections it starts and cannot win). The node starts as a follower of a generated
// leader, leaderless, or as the established leader of its term.
//
// Oracle, after every event (state read while the loop is idle):
//   - the term never decreases;
//   - a health check of a lower term changes nothing; one that is accepted (term >= own) leaves
//     the node with exactly that leader and that term, and not leading;
//   - a vote is granted only for a term above the node's own, at most once per term (a term the
//     node itself stood for counts as voted), the reply carries the node's term, and a node that
//     granted its vote for term t does not consider itself leader in t;
//   - alone in its partition the node never becomes leader (it cannot get a strict majority), and
//     a leader that cannot reach anybody answers client-facing probes as partitioned once the
//     configured number of health checks has failed;
//   - stale-term leaders are ignored, also by the election timeout (two oracles):
//     (a) bounded time. Cluster.run counts heartbeat ticks without a leader's health check and starts an election
//     (term+1) at the vote_after-th one (clusterFailover.voteTimeout, set from the configuration's vote_after; the
//     period is clusterFailover.heartBeat, overwritten here with exactly 100 ms, so there is no random part left).
//     The harness counts the ticks that fall into every generated pause while the node is not the leader, and
//     restarts its count at everything that may legitimately restart the node's timeout: an accepted health check
//     (term >= own), a granted vote, an election of its own. Health checks of a lower term restart nothing. Every
//     time the count reaches vote_after one more election is due; the number of elections the node has started
//     (term increments during pauses: nothing else arrives then) must never be below the number due. One-sided: a
//     node that stands earlier (the real loop does not restart its count when it grants a vote) is not judged.
//     (b) metamorphic. A history that contained health checks of a lower term is executed again without them: every
//     remaining event must leave the node in the same state (term, leader, ring) and get the same vote reply as in
//     the first run - in particular the node starts every election in the same pause.
//     Events never coincide with a tick: the history starts 500 us after the loop (ticks at k*100 ms, pauses are
//     whole milliseconds), so the order of a tick and an injected message is never left to the scheduler.
//
// The multi-node simulator (c17sim_test.go) reaches these situations only through particular
// loss patterns; here every one of them is one generated event away.

import (
	"fmt"
	"io"
	"sort"
	"sync"
	"testing"
	"testing/synctest"
	"time"

	"github.com/tinode/chat/server/logs"
	kit "github.com/tinode/chat/server/zzverifkit"
	"pgregory.net/rapid"
)

type c17NodeEv struct {
	K    string `json:"k"`              // health | vote | adv
	From int    `json:"from,omitempty"` // index of the sending peer (1..n-1)
	DT   int    `json:"dt,omitempty"`   // term relative to the node's term before the event
	Ms   int    `json:"ms,omitempty"`   // adv: virtual milliseconds
	List int    `json:"list,omitempty"` // health: 0 = all nodes, k = all but peer k
}

type c17NodeCase struct {
	N         int         `json:"n"`     // configured nodes (3..5); the node under test is "a"
	Start     int         `json:"start"` // 0 leaderless, k>0 follower of peer k, -1 established leader
	Term      int         `json:"term"`
	VoteAfter int         `json:"vote_after"`
	FailAfter int         `json:"fail_after"`
	Ev        []c17NodeEv `json:"ev"`
}

func c17NodeGen(rt *rapid.T) c17NodeCase {
	c := c17NodeCase{N: rapid.IntRange(3, 5).Draw(rt, "n"), Term: rapid.IntRange(0, 6).Draw(rt, "term"),
		VoteAfter: rapid.IntRange(1, 4).Draw(rt, "vote_after"), FailAfter: rapid.IntRange(1, 3).Draw(rt, "fail_after")}
	c.Start = rapid.SampledFrom([]int{0, 1, 1, 2, -1, -1}).Draw(rt, "start")
	n := rapid.IntRange(1, 14).Draw(rt, "nev")
	for i := 0; i < n; i++ {
		switch k := rapid.IntRange(0, 109).Draw(rt, "kind"); {
		case k >= 100:
			// a stale leader that is still running: its health checks keep coming while the node's election timeout runs
			peer := rapid.IntRange(1, c.N-1).Draw(rt, "from")
			for j, m := 0, rapid.IntRange(2, 5).Draw(rt, "burst"); j < m; j++ {
				c.Ev = append(c.Ev, c17NodeEv{K: "health", From: peer, DT: rapid.SampledFrom([]int{-1, -1, -2}).Draw(rt, "dt")},
					c17NodeEv{K: "adv", Ms: rapid.SampledFrom([]int{30, 90, 90, 120}).Draw(rt, "ms")})
			}
		case k < 45:
			c.Ev = append(c.Ev, c17NodeEv{K: "health", From: rapid.IntRange(1, c.N-1).Draw(rt, "from"),
				DT: rapid.SampledFrom([]int{0, 0, 0, 1, 1, 2, 3, -1, -1, -2}).Draw(rt, "dt"), List: rapid.SampledFrom([]int{0, 0, 0, 1, 2}).Draw(rt, "list")})
		case k < 75:
			c.Ev = append(c.Ev, c17NodeEv{K: "vote", From: rapid.IntRange(1, c.N-1).Draw(rt, "from"),
				DT: rapid.SampledFrom([]int{1, 1, 1, 2, 3, 0, 0, -1}).Draw(rt, "dt")})
		default:
			c.Ev = append(c.Ev, c17NodeEv{K: "adv", Ms: rapid.SampledFrom([]int{30, 90, 120, 250, 450, 900}).Draw(rt, "ms")})
		}
	}
	return c
}

type c17NodeSnap struct {
	term   int
	leader string
	sig    string
}

// c17NodeObs is what one event left behind: the node's state after it and, for a vote request, the reply.
type c17NodeObs struct {
	ev    int
	snap  c17NodeSnap
	voted bool
	reply ClusterVoteResponse
}

type c17NodeResult struct {
	viol    *kit.Viol
	classes map[string]bool
	obs     []c17NodeObs // one per executed event
	stale   map[int]bool // indexes of the health checks whose term was below the node's
}

// classes that refine a situation (not counted as situations of their own by the non-triviality rule)
var c17NodeDetail = map[string]bool{"rerun-without-stale-checks": true, "stale-health-check-while-timeout-runs": true, "stood-for-election-despite-stale-checks": true}

const c17NodeHB = 100 // ms: the heartbeat the loop under test is given

// c17NodeRun executes the history in a fresh bubble, leaving out the events listed in skip.
func c17NodeRun(t *testing.T, cs c17NodeCase, skip map[int]bool) (res c17NodeResult) {
	res.classes = map[string]bool{}
	res.stale = map[int]bool{}
	classes := res.classes
	var viol *kit.Viol
	defer func() { res.viol = viol }()
	synctest.Test(t, func(t *testing.T) {
		saveHub, saveCl := globals.hub, globals.cluster
		globals.hub = &Hub{topics: &sync.Map{}, rehash: make(chan bool, 1<<12)}
		globals.cluster = nil
		defer func() { globals.hub, globals.cluster = saveHub, saveCl }()

		c := &Cluster{thisNodeName: "a", fingerprint: 1, nodes: map[string]*ClusterNode{}}
		for j := 1; j < cs.N; j++ {
			c.nodes[c17Names[j]] = &ClusterNode{name: c17Names[j], address: "c17-no-network", done: make(chan bool, 1), msess: map[string]struct{}{}}
		}
		if !c.failoverInit(&clusterFailoverConfig{Enabled: true, Heartbeat: c17NodeHB, VoteAfter: cs.VoteAfter, NodeFailAfter: cs.FailAfter}) {
			viol = kit.V("harness", "failoverInit refused the configuration")
			return
		}
		c.fo.heartBeat = c17NodeHB * time.Millisecond
		c.fo.term = cs.Term
		switch {
		case cs.Start > 0 && cs.Start < cs.N:
			c.fo.leader = c17Names[cs.Start]
		case cs.Start < 0:
			c.fo.leader = "a"
		}
		// the configuration the loop really uses (read, not assumed)
		voteAfter := c.fo.voteTimeout
		hbMs := int(c.fo.heartBeat / time.Millisecond)
		snap := func() c17NodeSnap { return c17NodeSnap{c.fo.term, c.fo.leader, c.ring.Signature()} }
		exited := make(chan struct{})
		go func() { c.run(); close(exited) }()
		synctest.Wait()
		// ticks fire k*hbMs after this point; every event happens at a whole millisecond + 500 us
		time.Sleep(500 * time.Microsecond)
		synctest.Wait()

		voted := map[int]string{} // term -> whom this node's vote of that term went to
		if cs.Start < 0 {
			voted[cs.Term] = "a"
		}
		fail := func(sig, f string, a ...any) {
			if viol == nil {
				viol = kit.V(sig, f, a...)
			}
		}
		all := []string{"a"}
		for j := 1; j < cs.N; j++ {
			all = append(all, c17Names[j])
		}
		// bounded-time oracle (a)
		elapsed := 0    // ms of generated pauses so far
		quiet := 0      // heartbeat ticks since the node's election timeout was last (legitimately) restarted
		due := 0        // elections that were due so far
		started := 0    // elections the node started so far
		staleSince := 0 // stale health checks since the timeout was last restarted (for the message)
		for i, ev := range cs.Ev {
			if viol != nil {
				break
			}
			if skip[i] {
				continue
			}
			pre := snap()
			from := c17Names[1+(ev.From-1+cs.N-1)%(cs.N-1)]
			ob := c17NodeObs{ev: i}
			switch ev.K {
			case "adv":
				time.Sleep(time.Duration(ev.Ms) * time.Millisecond)
				synctest.Wait()
				post := snap()
				ticks := (elapsed+ev.Ms)/hbMs - elapsed/hbMs
				elapsed += ev.Ms
				if post.term > pre.term {
					classes["stood-for-election"] = true
					for tm := pre.term + 1; tm <= post.term; tm++ {
						if who, ok := voted[tm]; ok && who != "a" {
							fail("two-votes-in-one-term", "event %d: the node stood for election in term %d after granting its vote of that term to %s", i, tm, who)
						}
						voted[tm] = "a"
					}
				}
				if pre.leader != "a" {
					// nothing reaches the node during a pause: it stays a non-leader and every tick counts
					started += post.term - pre.term
					for k := 0; k < ticks; k++ {
						quiet++
						if quiet >= voteAfter {
							due++
							quiet = 0
						}
					}
					if started < due {
						fail("election-overdue", "event %d: the node (term %d, leader %q, not the leader) has seen %d heartbeat periods of %d ms pass without a health check of its term or a later one, vote_after is %d: "+
							"%d election(s) were due by now, it started %d (%d health check(s) of a LOWER term arrived since its timeout was last restarted: a stale leader holds off the election)",
							i, post.term, post.leader, quiet+voteAfter*(due-started), hbMs, voteAfter, due, started, staleSince)
					}
					if post.term > pre.term {
						// one-sided: a node that is ahead of the harness count (it stood earlier than it had to) restarted
						// its own timeout at that election, i.e. not later than now: the harness count restarts now
						if started > due {
							started, due, quiet = 0, 0, 0
						}
						if staleSince > 0 {
							classes["stood-for-election-despite-stale-checks"] = true
						}
						staleSince = 0
					}
				}
			case "health":
				term := pre.term + ev.DT
				if term < 0 {
					term = 0
				}
				nodes := append([]string(nil), all...)
				if ev.List > 0 && ev.List < cs.N {
					drop := c17Names[ev.List]
					nodes = nodes[:0]
					for _, nm := range all {
						if nm != drop {
							nodes = append(nodes, nm)
						}
					}
				}
				h := &ClusterHealth{Leader: from, Term: term, Nodes: nodes, Signature: c17SigOf(nodes)}
				c.fo.healthCheck <- h
				synctest.Wait()
				post := snap()
				if term < pre.term {
					classes["stale-health-check"] = true
					res.stale[i] = true
					if pre.leader != "a" && quiet > 0 {
						classes["stale-health-check-while-timeout-runs"] = true
					}
					staleSince++
					if post != pre {
						fail("stale-health-check-changed-state", "event %d: node (term %d, leader %q, ring %s) received a health check of term %d from %s and now has term %d, leader %q, ring %s",
							i, pre.term, pre.leader, pre.sig, term, from, post.term, post.leader, post.sig)
					}
					break
				}
				switch {
				case term > pre.term && from == pre.leader:
					classes["same-leader-higher-term"] = true
				case term > pre.term:
					classes["new-leader-higher-term"] = true
				case from != pre.leader:
					classes["other-leader-same-term"] = true
				default:
					classes["heartbeat"] = true
				}
				if post.term != term || post.leader != from {
					fail("health-check-leader-not-adopted", "event %d: node (term %d, leader %q) accepted a health check of term %d from %s and now has term %d, leader %q",
						i, pre.term, pre.leader, term, from, post.term, post.leader)
				}
				// a current leader is alive: the timeout restarts
				quiet, due, started, staleSince = 0, 0, 0, 0
			case "vote":
				term := pre.term + ev.DT
				if term < 0 {
					term = 0
				}
				resp := make(chan ClusterVoteResponse, 1)
				c.fo.electionVote <- &ClusterVote{req: &ClusterVoteRequest{Node: from, Term: term}, resp: resp}
				synctest.Wait()
				post := snap()
				var r ClusterVoteResponse
				select {
				case r = <-resp:
				default:
					fail("vote-unanswered", "event %d: vote request of term %d from %s got no answer", i, term, from)
				}
				if viol != nil {
					break
				}
				ob.voted, ob.reply = true, r
				if r.Term != post.term {
					fail("vote-reply-term", "event %d: the reply to a vote request carries term %d, the node's term is %d", i, r.Term, post.term)
				}
				if r.Result {
					classes["vote-granted"] = true
					if term <= pre.term {
						fail("vote-granted-for-old-term", "event %d: the node (term %d) granted its vote for term %d to %s", i, pre.term, term, from)
					}
					if who, ok := voted[term]; ok && who != from {
						fail("two-votes-in-one-term", "event %d: the node granted its vote of term %d to %s after giving it to %s", i, term, from, who)
					}
					voted[term] = from
					if post.term != term {
						fail("vote-granted-term-not-adopted", "event %d: granted a vote for term %d, the node's term is %d", i, term, post.term)
					}
					if post.leader == "a" {
						fail("leader-after-granting-vote", "event %d: the node granted its vote for term %d to %s and still considers itself leader in that term: two leaders in one term once %s wins", i, term, from, from)
					}
					if pre.leader == "a" {
						classes["leader-granted-vote"] = true
					}
					// a node may restart its timeout when it grants a vote (the real loop does not): not held against it
					quiet, due, started, staleSince = 0, 0, 0, 0
				} else {
					classes["vote-refused"] = true
					if post != pre {
						fail("refused-vote-changed-state", "event %d: a refused vote request (term %d from %s) changed the node from %+v to %+v", i, term, from, pre, post)
					}
				}
			}
			post := snap()
			ob.snap = post
			res.obs = append(res.obs, ob)
			if post.term < pre.term {
				fail("term-decreased", "event %d (%s): the node's term went from %d to %d", i, ev.K, pre.term, post.term)
			}
			if post.leader == "a" && pre.leader != "a" {
				fail("leader-without-majority", "event %d (%s): the node, which can reach no other node, considers itself leader of term %d", i, ev.K, post.term)
			}
		}
		c.fo.done <- true
		<-exited
	})
	return
}

func c17NodeExec(t *testing.T) func(c17NodeCase) kit.Outcome {
	return func(cs c17NodeCase) kit.Outcome {
		o := kit.Outcome{}
		res := c17NodeRun(t, cs, nil)
		viol, classes := res.viol, res.classes
		if viol == nil && len(res.stale) > 0 {
			// metamorphic oracle (b): the same history without the health checks of a lower term
			classes["rerun-without-stale-checks"] = true
			ref := c17NodeRun(t, cs, res.stale)
			var kept []c17NodeObs
			for _, ob := range res.obs {
				if !res.stale[ob.ev] {
					kept = append(kept, ob)
				}
			}
			switch {
			case ref.viol != nil:
				// the reduced history is a history of its own right
				viol = kit.V(ref.viol.Sig, "(history without its stale health checks) %s", ref.viol.Msg)
			case len(ref.obs) != len(kept):
				viol = kit.V("harness", "the run without stale checks executed %d events, expected %d", len(ref.obs), len(kept))
			default:
				for k := range kept {
					with, without := kept[k], ref.obs[k]
					if with.snap == without.snap && with.voted == without.voted && with.reply == without.reply {
						continue
					}
					var idx []int
					for i := range cs.Ev {
						if res.stale[i] && i < with.ev {
							idx = append(idx, i)
						}
					}
					ev := cs.Ev[with.ev]
					what := fmt.Sprintf("%s", ev.K)
					if ev.K == "adv" {
						what = fmt.Sprintf("a pause of %d ms", ev.Ms)
					}
					msg := fmt.Sprintf("after event %d (%s) the node has term %d, leader %q, ring %s", with.ev, what, with.snap.term, with.snap.leader, with.snap.sig)
					msg += fmt.Sprintf("; in the same history without the health checks of a lower term (events %v) it has term %d, leader %q, ring %s", idx, without.snap.term, without.snap.leader, without.snap.sig)
					if with.voted {
						msg += fmt.Sprintf("; vote reply %+v against %+v", with.reply, without.reply)
					}
					msg += ": health checks of a stale leader are not ignored, they change when the node stands for election (vote_after " + fmt.Sprint(cs.VoteAfter) + ")"
					viol = kit.V("stale-health-check-changed-later-behaviour", "%s", msg)
					break
				}
			}
		}
		situations := 0
		for k := range classes {
			o.Classes = append(o.Classes, k)
			if !c17NodeDetail[k] {
				situations++
			}
		}
		sort.Strings(o.Classes)
		o.NonTrivial = situations >= 3
		o.Viol = viol
		return o
	}
}

func TestC17Node(t *testing.T) {
	logs.Init(io.Discard, "stdFlags")
	kit.Check(t, "C17", "TestC17Node", c17NodeGen, c17NodeExec(t))
}

var _ = fmt.Sprintf
