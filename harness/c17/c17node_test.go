package main

// C17 (ii-c) — what ONE node does with every message the election protocol can hand it.
//
// A single real Cluster value runs its real failover loop (Cluster.run with electLeader,
// sendHealthChecks) inside a testing/synctest bubble. Its peers are configured but not connected,
// so every call it makes fails at once (a node alone in its partition). The generated history
// feeds it what the network could deliver, in any order and with any terms: health checks from any
// configured node (same leader with a higher term, another leader with the same term, stale
// terms, other node lists), vote requests (new, repeated, stale), and the passing of time (missed
// heartbeats, elections it starts and cannot win). The node starts as a follower of a generated
// leader, leaderless, or as the established leader of its term.
//
// Oracle, after every event (state read while the loop is idle):
//   - the term never decreases;
//   - a health check of a lower term changes nothing; one that is accepted (term >= own) leaves
//     the node with exactly that leader and that term, and not leading;
//   - a vote is granted only for a term above the node's own, at most once per term (a term the
//     node itself stood for counts as voted), the reply carries the node's term, and a node that
//     granted its vote for term t does not consider itself leader in t;
//   - alone in its partition the node never becomes leader (it cannot get a strict majority), and
//     a leader that cannot reach anybody answers client-facing probes as partitioned once the
//     configured number of health checks has failed.
//
// The multi-node simulator (c17sim_test.go) reaches these situations only through particular
// loss patterns; here every one of them is one generated event away.

import (
	"fmt"
	"io"
	"sort"
	"sync"
	"testing"
	"testing/synctest"
	"time"

	"github.com/tinode/chat/server/logs"
	kit "github.com/tinode/chat/server/zzverifkit"
	"pgregory.net/rapid"
)

type c17NodeEv struct {
	K    string `json:"k"`              // health | vote | adv
	From int    `json:"from,omitempty"` // index of the sending peer (1..n-1)
	DT   int    `json:"dt,omitempty"`   // term relative to the node's term before the event
	Ms   int    `json:"ms,omitempty"`   // adv: virtual milliseconds
	List int    `json:"list,omitempty"` // health: 0 = all nodes, k = all but peer k
}

type c17NodeCase struct {
	N         int         `json:"n"`     // configured nodes (3..5); the node under test is "a"
	Start     int         `json:"start"` // 0 leaderless, k>0 follower of peer k, -1 established leader
	Term      int         `json:"term"`
	VoteAfter int         `json:"vote_after"`
	FailAfter int         `json:"fail_after"`
	Ev        []c17NodeEv `json:"ev"`
}

func c17NodeGen(rt *rapid.T) c17NodeCase {
	c := c17NodeCase{N: rapid.IntRange(3, 5).Draw(rt, "n"), Term: rapid.IntRange(0, 6).Draw(rt, "term"),
		VoteAfter: rapid.IntRange(1, 4).Draw(rt, "vote_after"), FailAfter: rapid.IntRange(1, 3).Draw(rt, "fail_after")}
	c.Start = rapid.SampledFrom([]int{0, 1, 1, 2, -1, -1}).Draw(rt, "start")
	n := rapid.IntRange(1, 14).Draw(rt, "nev")
	for i := 0; i < n; i++ {
		switch k := rapid.IntRange(0, 99).Draw(rt, "kind"); {
		case k < 45:
			c.Ev = append(c.Ev, c17NodeEv{K: "health", From: rapid.IntRange(1, c.N-1).Draw(rt, "from"),
				DT: rapid.SampledFrom([]int{0, 0, 0, 1, 1, 2, 3, -1, -1, -2}).Draw(rt, "dt"), List: rapid.SampledFrom([]int{0, 0, 0, 1, 2}).Draw(rt, "list")})
		case k < 75:
			c.Ev = append(c.Ev, c17NodeEv{K: "vote", From: rapid.IntRange(1, c.N-1).Draw(rt, "from"),
				DT: rapid.SampledFrom([]int{1, 1, 1, 2, 3, 0, 0, -1}).Draw(rt, "dt")})
		default:
			c.Ev = append(c.Ev, c17NodeEv{K: "adv", Ms: rapid.SampledFrom([]int{30, 90, 120, 250, 450, 900}).Draw(rt, "ms")})
		}
	}
	return c
}

type c17NodeSnap struct {
	term   int
	leader string
	sig    string
}

func c17NodeExec(t *testing.T) func(c17NodeCase) kit.Outcome {
	return func(cs c17NodeCase) kit.Outcome {
		o := kit.Outcome{}
		var viol *kit.Viol
		classes := map[string]bool{}
		synctest.Test(t, func(t *testing.T) {
			saveHub, saveCl := globals.hub, globals.cluster
			globals.hub = &Hub{topics: &sync.Map{}, rehash: make(chan bool, 1<<12)}
			globals.cluster = nil
			defer func() { globals.hub, globals.cluster = saveHub, saveCl }()

			c := &Cluster{thisNodeName: "a", fingerprint: 1, nodes: map[string]*ClusterNode{}}
			for j := 1; j < cs.N; j++ {
				c.nodes[c17Names[j]] = &ClusterNode{name: c17Names[j], address: "c17-no-network", done: make(chan bool, 1), msess: map[string]struct{}{}}
			}
			if !c.failoverInit(&clusterFailoverConfig{Enabled: true, Heartbeat: 100, VoteAfter: cs.VoteAfter, NodeFailAfter: cs.FailAfter}) {
				viol = kit.V("harness", "failoverInit refused the configuration")
				return
			}
			c.fo.heartBeat = 100 * time.Millisecond
			c.fo.term = cs.Term
			switch {
			case cs.Start > 0 && cs.Start < cs.N:
				c.fo.leader = c17Names[cs.Start]
			case cs.Start < 0:
				c.fo.leader = "a"
			}
			snap := func() c17NodeSnap { return c17NodeSnap{c.fo.term, c.fo.leader, c.ring.Signature()} }
			exited := make(chan struct{})
			go func() { c.run(); close(exited) }()
			synctest.Wait()

			voted := map[int]string{} // term -> whom this node's vote of that term went to
			if cs.Start < 0 {
				voted[cs.Term] = "a"
			}
			fail := func(sig, f string, a ...any) {
				if viol == nil {
					viol = kit.V(sig, f, a...)
				}
			}
			all := []string{"a"}
			for j := 1; j < cs.N; j++ {
				all = append(all, c17Names[j])
			}
			for i, ev := range cs.Ev {
				if viol != nil {
					break
				}
				pre := snap()
				from := c17Names[1+(ev.From-1+cs.N-1)%(cs.N-1)]
				switch ev.K {
				case "adv":
					time.Sleep(time.Duration(ev.Ms) * time.Millisecond)
					synctest.Wait()
					post := snap()
					if post.term > pre.term {
						classes["stood-for-election"] = true
						for tm := pre.term + 1; tm <= post.term; tm++ {
							if who, ok := voted[tm]; ok && who != "a" {
								fail("two-votes-in-one-term", "event %d: the node stood for election in term %d after granting its vote of that term to %s", i, tm, who)
							}
							voted[tm] = "a"
						}
					}
				case "health":
					term := pre.term + ev.DT
					if term < 0 {
						term = 0
					}
					nodes := append([]string(nil), all...)
					if ev.List > 0 && ev.List < cs.N {
						drop := c17Names[ev.List]
						nodes = nodes[:0]
						for _, nm := range all {
							if nm != drop {
								nodes = append(nodes, nm)
							}
						}
					}
					h := &ClusterHealth{Leader: from, Term: term, Nodes: nodes, Signature: c17SigOf(nodes)}
					c.fo.healthCheck <- h
					synctest.Wait()
					post := snap()
					if term < pre.term {
						classes["stale-health-check"] = true
						if post != pre {
							fail("stale-health-check-changed-state", "event %d: node (term %d, leader %q, ring %s) received a health check of term %d from %s and now has term %d, leader %q, ring %s",
								i, pre.term, pre.leader, pre.sig, term, from, post.term, post.leader, post.sig)
						}
						break
					}
					switch {
					case term > pre.term && from == pre.leader:
						classes["same-leader-higher-term"] = true
					case term > pre.term:
						classes["new-leader-higher-term"] = true
					case from != pre.leader:
						classes["other-leader-same-term"] = true
					default:
						classes["heartbeat"] = true
					}
					if post.term != term || post.leader != from {
						fail("health-check-leader-not-adopted", "event %d: node (term %d, leader %q) accepted a health check of term %d from %s and now has term %d, leader %q",
							i, pre.term, pre.leader, term, from, post.term, post.leader)
					}
				case "vote":
					term := pre.term + ev.DT
					if term < 0 {
						term = 0
					}
					resp := make(chan ClusterVoteResponse, 1)
					c.fo.electionVote <- &ClusterVote{req: &ClusterVoteRequest{Node: from, Term: term}, resp: resp}
					synctest.Wait()
					post := snap()
					var r ClusterVoteResponse
					select {
					case r = <-resp:
					default:
						fail("vote-unanswered", "event %d: vote request of term %d from %s got no answer", i, term, from)
					}
					if viol != nil {
						break
					}
					if r.Term != post.term {
						fail("vote-reply-term", "event %d: the reply to a vote request carries term %d, the node's term is %d", i, r.Term, post.term)
					}
					if r.Result {
						classes["vote-granted"] = true
						if term <= pre.term {
							fail("vote-granted-for-old-term", "event %d: the node (term %d) granted its vote for term %d to %s", i, pre.term, term, from)
						}
						if who, ok := voted[term]; ok && who != from {
							fail("two-votes-in-one-term", "event %d: the node granted its vote of term %d to %s after giving it to %s", i, term, from, who)
						}
						voted[term] = from
						if post.term != term {
							fail("vote-granted-term-not-adopted", "event %d: granted a vote for term %d, the node's term is %d", i, term, post.term)
						}
						if post.leader == "a" {
							fail("leader-after-granting-vote", "event %d: the node granted its vote for term %d to %s and still considers itself leader in that term: two leaders in one term once %s wins", i, term, from, from)
						}
						if pre.leader == "a" {
							classes["leader-granted-vote"] = true
						}
					} else {
						classes["vote-refused"] = true
						if post != pre {
							fail("refused-vote-changed-state", "event %d: a refused vote request (term %d from %s) changed the node from %+v to %+v", i, term, from, pre, post)
						}
					}
				}
				post := snap()
				if post.term < pre.term {
					fail("term-decreased", "event %d (%s): the node's term went from %d to %d", i, ev.K, pre.term, post.term)
				}
				if post.leader == "a" && pre.leader != "a" {
					fail("leader-without-majority", "event %d (%s): the node, which can reach no other node, considers itself leader of term %d", i, ev.K, post.term)
				}
			}
			c.fo.done <- true
			<-exited
		})
		for k := range classes {
			o.Classes = append(o.Classes, k)
		}
		sort.Strings(o.Classes)
		o.NonTrivial = len(classes) >= 3
		o.Viol = viol
		return o
	}
}

func TestC17Node(t *testing.T) {
	logs.Init(io.Discard, "stdFlags")
	kit.Check(t, "C17", "TestC17Node", c17NodeGen, c17NodeExec(t))
}

var _ = fmt.Sprintf
