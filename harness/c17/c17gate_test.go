package main

// C17 (ii-a) — cluster nodes with the same membership agree on topic placement; nodes whose rings differ refuse
// each other's topic traffic (Cluster.Route, Cluster.TopicMaster), nodes whose rings are equal process it.
//
// Real code: Cluster.rehash, nodeForTopic, isRemoteTopic, Route, TopicMaster (cluster.go). The rings are built the way
// clusterInit/failover do it: Cluster.rehash(list of live names) or Cluster.rehash(nil) (= every configured node).
// No network, no hub loop: globals.hub / globals.sessionStore are hand-made values whose channels receive what an
// accepted request forwards.

import (
	"container/list"
	"io"
	"sort"
	"strconv"
	"sync"
	"testing"
	"time"

	"github.com/tinode/chat/server/logs"
	kit "github.com/tinode/chat/server/zzverifkit"
	"pgregory.net/rapid"
)

type c17GateCase struct {
	All     []string `json:"all"`      // configured node names (distinct, non-empty); node A = All[0], node B = All[1]
	LiveA   []int    `json:"live_a"`   // A's list of live nodes (indexes into All, in this order); empty = rehash(nil)
	LiveB   []int    `json:"live_b"`   // B's list
	Topics  []string `json:"topics"`   // topic / user names
	TopicN  int      `json:"topic_n"`  // plus "usr"+i, "grp"+i for i < TopicN
	ReqType int      `json:"req_type"` // proxy request type for TopicMaster: 4 broadcast, 1 join
}

func c17GateGen(rt *rapid.T) c17GateCase {
	var c c17GateCase
	n := rapid.IntRange(2, 6).Draw(rt, "n")
	seen := map[string]bool{}
	for len(c.All) < n {
		var nm string
		switch rapid.IntRange(0, 3).Draw(rt, "style") {
		case 0:
			nm = rapid.SampledFrom([]string{"one", "two", "three", "four", "five", "six", "1", "10", "01", "0"}).Draw(rt, "fixed")
		case 1:
			if len(c.All) > 0 {
				nm = rapid.SampledFrom(c.All).Draw(rt, "base") + rapid.SampledFrom([]string{"0", "1", "x", "é"}).Draw(rt, "ext")
			} else {
				nm = "n"
			}
		default:
			nm = rapid.StringN(1, 6, -1).Draw(rt, "name")
		}
		if nm != "" && !seen[nm] {
			seen[nm] = true
			c.All = append(c.All, nm)
		}
	}
	sub := func(label string) []int {
		if rapid.IntRange(0, 4).Draw(rt, label+"-nil") == 0 {
			return nil
		}
		p := rapid.Permutation(c17GateIota(n)).Draw(rt, label+"-perm")
		k := rapid.IntRange(1, n).Draw(rt, label+"-k")
		if rapid.IntRange(0, 2).Draw(rt, label+"-full") == 0 {
			k = n
		}
		return p[:k]
	}
	c.LiveA = sub("a")
	switch rapid.IntRange(0, 2).Draw(rt, "bmode") {
	case 0: // same set as A, other order
		if c.LiveA == nil {
			c.LiveB = rapid.Permutation(c17GateIota(n)).Draw(rt, "b-all")
		} else {
			c.LiveB = rapid.Permutation(append([]int(nil), c.LiveA...)).Draw(rt, "b-perm")
		}
	default:
		c.LiveB = sub("b")
	}
	c.Topics = rapid.SliceOfN(rapid.OneOf(rapid.String(), rapid.StringOfN(rapid.RuneFrom([]rune("usrgpchn0123456789AZaz_-")), 0, 14, -1)), 0, 8).Draw(rt, "topics")
	c.TopicN = rapid.IntRange(0, 60).Draw(rt, "topic_n")
	c.ReqType = rapid.SampledFrom([]int{int(ProxyReqBroadcast), int(ProxyReqJoin)}).Draw(rt, "req")
	return c
}

func c17GateIota(n int) []int {
	s := make([]int, n)
	for i := range s {
		s[i] = i
	}
	return s
}

func c17GateNames(all []string, idx []int) []string {
	if idx == nil {
		return nil
	}
	out := make([]string, len(idx))
	for i, v := range idx {
		out[i] = all[v]
	}
	return out
}

func c17GateSet(all []string, idx []int) []string {
	var s []string
	if idx == nil {
		s = append(s, all...)
	} else {
		s = c17GateNames(all, idx)
	}
	sort.Strings(s)
	return s
}

// c17GateCluster builds the Cluster value of node `self` the way clusterInit does (minus sockets and failover).
func c17GateCluster(all []string, self string, live []string) *Cluster {
	c := &Cluster{thisNodeName: self, fingerprint: 1, nodes: map[string]*ClusterNode{}}
	for _, nm := range all {
		if nm != self {
			c.nodes[nm] = &ClusterNode{name: nm, address: "c17-none", done: make(chan bool, 1), msess: map[string]struct{}{}}
		}
	}
	c.rehash(live)
	return c
}

func c17GateValid(c c17GateCase) bool {
	if len(c.All) < 2 || len(c.All) > 9 || c.TopicN < 0 || c.TopicN > 10000 {
		return false
	}
	seen := map[string]bool{}
	for _, nm := range c.All {
		if nm == "" || seen[nm] {
			return false
		}
		seen[nm] = true
	}
	for _, l := range [][]int{c.LiveA, c.LiveB} {
		used := map[int]bool{}
		if l != nil && len(l) == 0 {
			return false
		}
		for _, v := range l {
			if v < 0 || v >= len(c.All) || used[v] {
				return false
			}
			used[v] = true
		}
	}
	return c.ReqType == int(ProxyReqBroadcast) || c.ReqType == int(ProxyReqJoin)
}

func c17GateExec(c c17GateCase) kit.Outcome {
	if len(c.LiveA) == 0 {
		c.LiveA = nil
	}
	if len(c.LiveB) == 0 {
		c.LiveB = nil
	}
	if !c17GateValid(c) {
		return kit.Outcome{Skip: true}
	}
	o := kit.Outcome{}
	setA, setB := c17GateSet(c.All, c.LiveA), c17GateSet(c.All, c.LiveB)
	same := len(setA) == len(setB)
	if same {
		for i := range setA {
			same = same && setA[i] == setB[i]
		}
	}
	if same {
		o.Classes = append(o.Classes, "membership=equal")
	} else {
		o.Classes = append(o.Classes, "membership=different")
	}
	topics := append([]string(nil), c.Topics...)
	for i := 0; i < c.TopicN; i++ {
		topics = append(topics, "usr"+strconv.Itoa(i), "grp"+strconv.Itoa(i*7919))
	}
	topics = append(topics, "sys")
	o.NonTrivial = len(c.All) >= 3 && len(topics) >= 20

	saveHub, saveSS, saveCl := globals.hub, globals.sessionStore, globals.cluster
	defer func() { globals.hub, globals.sessionStore, globals.cluster = saveHub, saveSS, saveCl }()
	hub := &Hub{topics: &sync.Map{}, routeCli: make(chan *ClientComMessage, 64), routeSrv: make(chan *ServerComMessage, 64),
		join: make(chan *ClientComMessage, 64), rehash: make(chan bool, 64)}
	globals.hub = hub
	globals.sessionStore = &SessionStore{lru: list.New(), lifeTime: time.Hour, sessCache: map[string]*Session{}}
	globals.cluster = nil

	a := c17GateCluster(c.All, c.All[0], c17GateNames(c.All, c.LiveA))
	b := c17GateCluster(c.All, c.All[1], c17GateNames(c.All, c.LiveB))

	// ---- placement agreement between nodes with equal membership
	if same {
		if a.ring.Signature() != b.ring.Signature() {
			o.Viol = kit.V("equal-membership-different-signature", "nodes %q (live list %q) and %q (live list %q) have the same live set but ring signatures %q / %q",
				a.thisNodeName, c17GateNames(c.All, c.LiveA), b.thisNodeName, c17GateNames(c.All, c.LiveB), a.ring.Signature(), b.ring.Signature())
			return o
		}
		// One Cluster value per live node, each with its own rotation of the list.
		var peers []*Cluster
		for i, nm := range setA {
			rot := append(append([]string(nil), setA[i:]...), setA[:i]...)
			peers = append(peers, c17GateCluster(c.All, nm, rot))
		}
		for _, tp := range topics {
			owner := a.ring.Get(tp)
			if ob := b.ring.Get(tp); ob != owner {
				o.Viol = kit.V("equal-membership-different-owner", "topic %q is owned by %q at node %q and by %q at node %q (same live set %q)",
					tp, owner, a.thisNodeName, ob, b.thisNodeName, setA)
				return o
			}
			if a.isRemoteTopic(tp) != (owner != a.thisNodeName) || b.isRemoteTopic(tp) != (owner != b.thisNodeName) {
				o.Viol = kit.V("isremote-disagrees-with-owner", "topic %q owner %q: isRemoteTopic at %q = %v, at %q = %v",
					tp, owner, a.thisNodeName, a.isRemoteTopic(tp), b.thisNodeName, b.isRemoteTopic(tp))
				return o
			}
			local := 0
			for _, p := range peers {
				if !p.isRemoteTopic(tp) {
					local++
					if p.thisNodeName != owner {
						o.Viol = kit.V("two-nodes-serve-topic", "topic %q: node %q considers it local, node %q says the owner is %q (live set %q)",
							tp, p.thisNodeName, a.thisNodeName, owner, setA)
						return o
					}
				} else if n := p.nodeForTopic(tp); n == nil || n.name != owner {
					got := "<nil>"
					if n != nil {
						got = n.name
					}
					o.Viol = kit.V("route-target-disagrees", "topic %q: node %q would route to %q, node %q says the owner is %q (live set %q)",
						tp, p.thisNodeName, got, a.thisNodeName, owner, setA)
					return o
				}
			}
			if local != 1 {
				o.Viol = kit.V("topic-not-served-by-exactly-one", "topic %q is considered local by %d of the live nodes %q", tp, local, setA)
				return o
			}
		}
	}

	// ---- signature gate, both directions
	for dir, pair := range [][2]*Cluster{{a, b}, {b, a}} {
		from, to := pair[0], pair[1]
		for _, tp := range topics[:min(len(topics), 6)] {
			// Route
			for len(hub.routeSrv) > 0 {
				<-hub.routeSrv
			}
			srv := &ServerComMessage{RcptTo: tp, Data: &MsgServerData{Topic: tp}}
			rejected := false
			err := to.Route(&ClusterRoute{Node: from.thisNodeName, Signature: from.ring.Signature(), Fingerprint: from.fingerprint, SrvMsg: srv}, &rejected)
			forwarded := len(hub.routeSrv) == 1
			if v := c17GateJudge("Route", same, err, rejected, forwarded, from, to, tp); v != nil {
				o.Viol = v
				return o
			}
			// TopicMaster
			for len(hub.routeCli) > 0 {
				<-hub.routeCli
			}
			for len(hub.join) > 0 {
				<-hub.join
			}
			cli := &ClientComMessage{RcptTo: tp, Original: tp, AsUser: "usrAAAAAAAAAAA"}
			if ProxyReqType(c.ReqType) == ProxyReqBroadcast {
				cli.Pub = &MsgClientPub{Topic: tp, Content: "x"}
			} else {
				cli.Sub = &MsgClientSub{Topic: tp}
			}
			req := from.makeClusterReq(ProxyReqType(c.ReqType), cli, tp, nil)
			req.Sess = &ClusterSess{Sid: "c17sid" + strconv.Itoa(dir)}
			rejected = false
			err = to.TopicMaster(req, &rejected)
			forwarded = len(hub.routeCli)+len(hub.join) == 1
			if v := c17GateJudge("TopicMaster", same, err, rejected, forwarded, from, to, tp); v != nil {
				o.Viol = v
				return o
			}
			if same && forwarded {
				// The multiplexing session for this proxy topic exists now. The proxy's ring then changes
				// (its signature no longer matches): further traffic over the established session must be refused.
				for len(hub.routeCli) > 0 {
					<-hub.routeCli
				}
				for len(hub.join) > 0 {
					<-hub.join
				}
				stale := *req
				stale.Signature = req.Signature + "-stale"
				rejected = false
				err = to.TopicMaster(&stale, &rejected)
				forwarded = len(hub.routeCli)+len(hub.join) == 1
				if err != nil || !rejected || forwarded {
					o.Viol = kit.V("gate-accepted-different-membership:TopicMaster:established-session", "TopicMaster from %q to %q for topic %q over an established multiplexing session with a ring signature that no longer matches: err=%v rejected=%v forwarded=%v",
						from.thisNodeName, to.thisNodeName, tp, err, rejected, forwarded)
					return o
				}
				o.Classes = append(o.Classes, "stale-signature-on-established-session")
			}
		}
	}
	return o
}

func c17GateJudge(what string, same bool, err error, rejected, forwarded bool, from, to *Cluster, tp string) *kit.Viol {
	if err != nil {
		return kit.V("gate-rpc-error:"+what, "%s from %q to %q for %q returned error %v", what, from.thisNodeName, to.thisNodeName, tp, err)
	}
	if same && (rejected || !forwarded) {
		return kit.V("gate-refused-equal-membership:"+what, "%s from %q to %q for topic %q: memberships are equal (signatures %q / %q) but rejected=%v forwarded=%v",
			what, from.thisNodeName, to.thisNodeName, tp, from.ring.Signature(), to.ring.Signature(), rejected, forwarded)
	}
	if !same && (!rejected || forwarded) {
		return kit.V("gate-accepted-different-membership:"+what, "%s from %q to %q for topic %q: memberships differ (signatures %q / %q) but rejected=%v forwarded=%v",
			what, from.thisNodeName, to.thisNodeName, tp, from.ring.Signature(), to.ring.Signature(), rejected, forwarded)
	}
	return nil
}

func TestC17Gate(t *testing.T) {
	logs.Init(io.Discard, "stdFlags") // every refused request logs a warning
	r := kit.Begin("C17", "TestC17Gate")
	defer r.Flush()
	r.Extra("topicproxy", "Cluster.TopicProxy takes a ClusterResp, which carries no ring signature: master-to-proxy responses are not gated by the code and are not judged here")
	kit.CheckRun(t, r, c17GateGen, c17GateExec)
}
