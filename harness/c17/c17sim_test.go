package main

// C17 (ii-b) — leader election safety and health-check adoption under message loss, delay, reordering and partitions.
//
// n real Cluster values (3..5) run their real failover loops (Cluster.run, electLeader, sendHealthChecks, Vote,
// Health) inside one testing/synctest bubble. Every ClusterNode.endpoint is a real rpc.Client over a harness
// ClientCodec; each request and each reply is an item the generated schedule delivers, drops or reorders. The
// schedule is plain data (c17SimCase) and is its own replay file. On the wire every request and reply is its gob
// encoding, decoded into a fresh argument value at the callee and INTO the caller's own reply value at the caller, as
// net/rpc's default codec does (gob leaves out zero-valued fields and leaves absent fields of the destination alone).
//
// Determinism (the real code iterates a Go map of peers and uses select over several inputs):
//   * items are ordered by (virtual creation time, caller, callee, reply?, per-link counter), never by arrival;
//   * sendHealthChecks calls its peers synchronously in map order. All calls of one round carry the same payload and
//     update only per-peer state, so the transport executes the round in canonical (name) order: it creates the
//     request to the first peer in name order whatever peer the real loop asked first, answers each real call when
//     the canonical result for that peer is known, and the round ends when the last result is known;
//   * a request is handed to a node's RPC handler only while that node's run loop is idle in its select (not inside
//     electLeader, not inside sendHealthChecks, already started): otherwise the item stays in the network. So the
//     run loop never has two inputs ready at once and Go's random select cannot choose. (Replies a busy caller is
//     waiting for are of course delivered.) Whether a loop is inside electLeader is read from its goroutine stack.
//     One exception, needed so that two leaders can health-check each other: a health check (its handler never
//     blocks) is also handed to a node that is inside sendHealthChecks if nothing else is queued there and no
//     heartbeat tick has fired since the round began; such a check is not judged for adoption (the harness cannot see
//     the moment it is processed). If a second input piles up before that loop returns, the history would depend on
//     Go's select: the case ends there (class ended-early-select-race), everything before it has been judged;
//   * an RPC error on a vote call closes that connection (ClusterNode.handleRpcResponse); when it hits a node that is
//     inside a health round it takes effect in the canonical round at once and reaches the real loop when the round
//     is over;
//   * heartbeat jitter (math/rand in failoverInit) is overwritten with a value from the case;
//   * broken connections are re-established by the harness at the next quiescent point (what ClusterNode.reconnect
//     does over TCP); while a link is cut every request on it fails at once.
// globals.cluster is not read on the election path; the harness sets it only around the client-request probe of a
// partitioned leader, at a quiescent point, and restores it. globals.hub is a hand-made Hub whose rehash channel is
// buffered (nobody needs to drain it).

import (
	"bytes"
	"encoding/gob"
	"fmt"
	"io"
	"net/rpc"
	"os"
	"runtime"
	"sort"
	"strconv"
	"strings"
	"sync"
	"testing"
	"testing/synctest"
	"time"

	"github.com/tinode/chat/server/logs"
	rh "github.com/tinode/chat/server/ringhash"
	kit "github.com/tinode/chat/server/zzverifkit"
	"pgregory.net/rapid"
)

// ------------------------------------------------------------------------------------------------ case data

type c17Ev struct {
	K string `json:"k"`           // adv | dlv | drop | flush | mix | cut | heal | iso | healall | cutl | isol
	A int    `json:"a,omitempty"` // adv: ms; dlv/drop: index into the pending list; mix: bit pattern; cut/heal/iso: node; cutl: k-th peer of the leader
	B int    `json:"b,omitempty"` // cut/heal: second node
}

type c17SimCase struct {
	N         int     `json:"n"`          // 3..5 nodes, named a..e
	HB        []int   `json:"hb"`         // per-node heartbeat in ms (what failoverInit randomises: 75..124 for a 100 ms setting)
	Start     []int   `json:"start"`      // per-node start delay in ms
	VoteAfter int     `json:"vote_after"` // missed heartbeats before an election
	FailAfter int     `json:"fail_after"` // failed health checks before a node is declared dead
	Ev        []c17Ev `json:"ev"`
}

var c17Names = []string{"a", "b", "c", "d", "e"}

var c17GobFalse, _ = c17GobEnc(false)

// ------------------------------------------------------------------------------------------------ transport

// c17Resp is one response as it travels on the wire: the header fields and the gob encoding of the callee's reply
// value (nil for an error response, which has no body the client looks at).
type c17Resp struct {
	seq  uint64
	err  string
	body []byte
}

// c17GobEnc / c17GobDec are the wire format of net/rpc's default codec (encoding/gob). What matters to the code under
// test: gob does not transmit zero-valued struct fields, and decoding leaves the fields that are absent on the wire
// as they are in the destination. So the caller's reply value is not overwritten, it is decoded INTO, exactly as
// net/rpc's gobClientCodec.ReadResponseBody does; requests are decoded into a fresh argument value as net/rpc's
// server does. (Each message has its own encoder: the harness loses and reorders messages, a per-connection stream
// of type descriptors would not survive that. The field rules are the same.)
func c17GobEnc(v any) ([]byte, error) {
	var buf bytes.Buffer
	if err := gob.NewEncoder(&buf).Encode(v); err != nil {
		return nil, err
	}
	return buf.Bytes(), nil
}

func c17GobDec(raw []byte, into any) error {
	return gob.NewDecoder(bytes.NewReader(raw)).Decode(into)
}

type c17Codec struct {
	w        *c17World
	from, to int
	gen      int
	in       chan c17Resp
	closed   chan struct{}
	once     sync.Once
	cur      c17Resp
}

func (c *c17Codec) WriteRequest(r *rpc.Request, body any) error {
	c.w.onRequest(c, r.ServiceMethod, r.Seq, body)
	return nil
}

func (c *c17Codec) ReadResponseHeader(r *rpc.Response) error {
	select {
	case x := <-c.in:
		c.cur = x
		r.Seq = x.seq
		r.Error = x.err
		return nil
	case <-c.closed:
		return io.EOF
	}
}

func (c *c17Codec) ReadResponseBody(body any) error {
	if body == nil || c.cur.body == nil {
		// net/rpc discards the body of an error response (body == nil)
		return nil
	}
	return c17GobDec(c.cur.body, body)
}

func (c *c17Codec) Close() error {
	c.once.Do(func() { close(c.closed) })
	return nil
}

type c17Item struct {
	at             int64 // virtual creation time, ns since the start of the case
	caller, callee int   // the RPC's caller and callee (a reply travels callee -> caller)
	reply          bool
	lseq           int // per-link creation counter
	gen            int // connection generation of the caller's link when the request was sent
	health         bool
	rpcSeq         uint64
	vreq           ClusterVoteRequest  // the request as the callee's RPC server decodes it
	vresp          ClusterVoteResponse // the reply the callee's handler produced (the voter's own decision)
	wire           []byte              // gob encoding of that reply
	hreq           ClusterHealth
}

func (it *c17Item) String() string {
	kind, dir := "vote", "req"
	if it.health {
		kind = "health"
	}
	if it.reply {
		dir = "reply"
	}
	term := it.vreq.Term
	if it.health {
		term = it.hreq.Term
	}
	return fmt.Sprintf("%s-%s %s->%s term %d", kind, dir, c17Names[it.caller], c17Names[it.callee], term)
}

func c17ItemLess(x, y *c17Item) bool {
	if x.at != y.at {
		return x.at < y.at
	}
	if x.caller != y.caller {
		return x.caller < y.caller
	}
	if x.callee != y.callee {
		return x.callee < y.callee
	}
	if x.reply != y.reply {
		return !x.reply
	}
	return x.lseq < y.lseq
}

type c17Waiter struct {
	codec *c17Codec
	seq   uint64
}

// c17Round is one execution of sendHealthChecks by one node, run in canonical peer order.
type c17Round struct {
	payload  ClusterHealth
	raw      []byte // gob encoding of the health check as the leader sent it
	parts    []int  // peers taking part (connection up at the start of the round), ascending
	next     int    // index into parts of the peer whose result is awaited
	results  map[int]bool
	waiters  map[int]c17Waiter
	answered int
	deferred []c17Deferred // vote errors of the caller's links that arrived during the round
}

type c17Snap struct {
	term   int
	leader string
	sig    string
}

type c17World struct {
	mu    sync.Mutex
	cs    *c17SimCase
	n     int
	cl    []*Cluster
	t0    time.Time
	quiet bool // true while the harness (not node code) is running: used to assert single-threaded access

	pending []*c17Item
	up      [][]bool
	gen     [][]int
	lseq    [][]int
	codec   [][]*c17Codec
	cut     [][]bool
	round   []*c17Round
	closing bool

	started   []bool
	exited    []bool
	maybeBusy []bool
	inElect   []bool

	// observations
	lastTerm     []int
	votes        []map[int]int          // node -> term -> votes given (grants + own candidacy)
	voteLog      []map[int][]string     // node -> term -> to whom
	grantsRecv   []map[int]map[int]bool // candidate -> term -> voters whose grant (the voter's own reply, not what the candidate decoded) reached the candidate
	refusedRecv  []map[int]int          // candidate -> term -> refusals that reached the candidate while it was counting
	claims       map[int]map[int]bool   // term -> nodes that acted as leader in that term
	candidacies  map[int]map[int]bool   // term -> nodes that started an election in that term
	strike       []int8                 // model of the two-strike rehash rule, per node: 0 no strike, 1 one strike, 2 unknown
	busySince    []int64                // virtual time at which the node's loop entered electLeader / sendHealthChecks
	omitQueued   []bool                 // a health check whose node list omits the receiver is queued at this busy node
	action       string                 // what the harness is doing right now (part of a panic's signature)
	race         string                 // set when a busy loop would return to a select with two ready inputs
	hcFail       [][]int                // leader -> peer -> consecutive failed health checks seen by the transport
	stat         map[string]int
	viol         *kit.Viol
	desync       string
	trace        []string
	panicked     bool
	wantTrace    bool
	lastEvent    string
	eventIdx     int
	healthSeen   int
	pendingPeak  int
	rehashAdopts int
}

func (w *c17World) now() int64 { return int64(time.Since(w.t0)) }

func (w *c17World) fail(sig, format string, a ...any) {
	if w.viol == nil {
		w.viol = kit.V(sig, "event %d (%s): %s", w.eventIdx, w.lastEvent, fmt.Sprintf(format, a...))
	}
}

func (w *c17World) tr(format string, a ...any) {
	if w.wantTrace {
		w.trace = append(w.trace, fmt.Sprintf("[%d %dms] ", w.eventIdx, w.now()/1e6)+fmt.Sprintf(format, a...))
	}
}

func (w *c17World) insert(it *c17Item) {
	i := sort.Search(len(w.pending), func(i int) bool { return c17ItemLess(it, w.pending[i]) })
	w.pending = append(w.pending, nil)
	copy(w.pending[i+1:], w.pending[i:])
	w.pending[i] = it
	if len(w.pending) > w.pendingPeak {
		w.pendingPeak = len(w.pending)
	}
}

func (w *c17World) remove(it *c17Item) bool {
	for i, p := range w.pending {
		if p == it {
			w.pending = append(w.pending[:i], w.pending[i+1:]...)
			return true
		}
	}
	return false
}

// respond hands a response to the caller's rpc.Client, if that connection is still the current one.
func (w *c17World) respond(caller, callee, gen int, r c17Resp) bool {
	c := w.codec[caller][callee]
	if c == nil || c.gen != gen || !w.up[caller][callee] {
		return false
	}
	select {
	case c.in <- r:
		return true
	default:
		w.desync = "codec input queue full"
		return false
	}
}

// voteError: the caller of link caller->callee gets an RPC error for a vote call; the code will close the connection.
// While the caller is inside a health round the error is applied to the canonical round at once (the link is down:
// the health check to that peer fails if it is under way or still to come) and handed to the real loop only when
// the round is over, because the real loop visits its peers in map order.
func (w *c17World) voteError(it *c17Item, why string) {
	a, b := it.caller, it.callee
	c := w.codec[a][b]
	if c == nil || c.gen != it.gen || !w.up[a][b] {
		return
	}
	w.up[a][b] = false
	resp := c17Resp{seq: it.rpcSeq, err: "c17: " + why}
	r := w.round[a]
	if r == nil {
		select {
		case c.in <- resp:
		default:
			w.desync = "codec input queue full"
		}
		return
	}
	r.deferred = append(r.deferred, c17Deferred{c, resp})
	if r.next < len(r.parts) && r.parts[r.next] == b {
		for _, p := range w.pending {
			if p.health && p.caller == a && p.callee == b {
				w.remove(p)
				break
			}
		}
		w.setHealthResult(a, b, false, true)
	}
}

type c17Deferred struct {
	codec *c17Codec
	resp  c17Resp
}

// onRequest is called from node goroutines (rpc.Client.send).
func (w *c17World) onRequest(c *c17Codec, method string, seq uint64, body any) {
	w.mu.Lock()
	defer w.mu.Unlock()
	a, b := c.from, c.to
	switch method {
	case "Cluster.Vote":
		var req ClusterVoteRequest
		if raw, err := c17GobEnc(body); err != nil || c17GobDec(raw, &req) != nil {
			w.desync = "gob round trip of a vote request failed"
		}
		it := &c17Item{at: w.now(), caller: a, callee: b, lseq: w.lseq[a][b], gen: c.gen, rpcSeq: seq, vreq: req}
		w.lseq[a][b]++
		w.noteCandidacy(a, req.Term)
		w.maybeBusy[a] = true
		if w.closing || w.cut[a][b] {
			w.stat["failed-at-send"]++
			w.voteError(it, "link down")
			return
		}
		w.insert(it)
	case "Cluster.Health":
		var h ClusterHealth
		raw, err := c17GobEnc(body)
		if err != nil || c17GobDec(raw, &h) != nil {
			w.desync = "gob round trip of a health check failed"
		}
		r := w.round[a]
		if r == nil {
			r = &c17Round{payload: h, raw: raw, results: map[int]bool{}, waiters: map[int]c17Waiter{}}
			for p := 0; p < w.n; p++ {
				if p != a && w.up[a][p] {
					r.parts = append(r.parts, p)
				}
				if p != a && w.up[a][p] != w.cl[a].nodes[c17Names[p]].connected && w.desync == "" {
					w.desync = fmt.Sprintf("round start at %s: link to %s is up=%v for the transport, connected=%v for the code (event %d)", c17Names[a], c17Names[p], w.up[a][p], !w.up[a][p], w.eventIdx)
				}
			}
			w.round[a] = r
			w.busySince[a] = w.now()
			w.stat["health-rounds"]++
			w.noteClaim(a, h.Term, "sent a health check")
			if h.Leader != c17Names[a] {
				w.fail("health-wrong-leader-name", "node %s sent a health check naming %q as leader", c17Names[a], h.Leader)
			}
			w.tr("%s starts health round term %d (%d nodes listed) to peers %v", c17Names[a], h.Term, len(h.Nodes), r.parts)
			w.roundAdvance(a)
		} else if h.Term != r.payload.Term || h.Signature != r.payload.Signature || strings.Join(h.Nodes, "\x00") != strings.Join(r.payload.Nodes, "\x00") {
			w.desync = "health payload changed within one round"
		}
		inParts := false
		for _, p := range r.parts {
			inParts = inParts || p == b
		}
		if !inParts {
			w.desync = fmt.Sprintf("health call %s->%s outside of the round's participants", c17Names[a], c17Names[b])
			c.in <- c17Resp{seq: seq, err: "c17: desync"}
			return
		}
		r.waiters[b] = c17Waiter{codec: c, seq: seq}
		if _, known := r.results[b]; known {
			w.answerHealth(a, b)
		}
	default:
		c.in <- c17Resp{seq: seq, err: "c17: unsupported method " + method}
	}
}

// roundAdvance creates the request to the next peer in canonical order (or fails it at once on a cut link).
func (w *c17World) roundAdvance(a int) {
	r := w.round[a]
	for r != nil && r.next < len(r.parts) {
		p := r.parts[r.next]
		if w.closing || w.cut[a][p] || !w.up[a][p] {
			w.stat["failed-at-send"]++
			w.setHealthResult(a, p, false, false)
			continue
		}
		it := &c17Item{at: w.now(), caller: a, callee: p, lseq: w.lseq[a][p], gen: w.gen[a][p], health: true}
		if c17GobDec(r.raw, &it.hreq) != nil { // every callee decodes its own copy
			w.desync = "gob decoding of a health check failed"
		}
		w.lseq[a][p]++
		w.insert(it)
		return
	}
}

// setHealthResult records the canonical outcome of the health check a->p of the current round.
func (w *c17World) setHealthResult(a, p int, ok bool, advance bool) {
	r := w.round[a]
	if r == nil || r.next >= len(r.parts) || r.parts[r.next] != p {
		w.desync = "health result out of order"
		return
	}
	r.results[p] = ok
	r.next++
	if ok {
		w.hcFail[a][p] = 0
	} else {
		w.hcFail[a][p]++
		w.up[a][p] = false
	}
	if _, waiting := r.waiters[p]; waiting {
		w.answerHealth(a, p)
	}
	if advance {
		w.roundAdvance(a)
	}
}

func (w *c17World) answerHealth(a, p int) {
	r := w.round[a]
	wt := r.waiters[p]
	delete(r.waiters, p)
	resp := c17Resp{seq: wt.seq}
	if !r.results[p] {
		resp.err = "c17: health check failed"
	} else {
		resp.body = c17GobFalse // Cluster.Health leaves its reply (*bool) false
	}
	select {
	case wt.codec.in <- resp:
	default:
		w.desync = "codec input queue full"
	}
	r.answered++
	if r.answered == len(r.parts) {
		w.round[a] = nil
		w.tr("%s health round done", c17Names[a])
		for _, d := range r.deferred {
			select {
			case d.codec.in <- d.resp:
			default:
				w.desync = "codec input queue full"
			}
		}
	}
}

// ------------------------------------------------------------------------------------------------ observations

func (w *c17World) noteCandidacy(a, term int) {
	if w.candidacies[term] == nil {
		w.candidacies[term] = map[int]bool{}
	}
	if w.candidacies[term][a] {
		return
	}
	w.candidacies[term][a] = true
	w.busySince[a] = w.now()
	w.stat["elections"]++
	w.tr("%s starts election for term %d", c17Names[a], term)
	w.noteVote(a, term, c17Names[a]+" (own candidacy)")
}

func (w *c17World) noteVote(node, term int, to string) {
	w.votes[node][term]++
	w.voteLog[node][term] = append(w.voteLog[node][term], to)
	if w.votes[node][term] > 1 {
		w.fail("two-votes-in-one-term", "node %s voted %d times in term %d: for %s", c17Names[node], w.votes[node][term], term, strings.Join(w.voteLog[node][term], ", then for "))
	}
}

func (w *c17World) noteClaim(a, term int, how string) {
	if w.claims[term] == nil {
		w.claims[term] = map[int]bool{}
	}
	if w.claims[term][a] {
		return
	}
	w.claims[term][a] = true
	w.stat["leaders"]++
	w.tr("%s is leader of term %d (%s)", c17Names[a], term, how)
	for o := 0; o < w.n; o++ {
		if o != a && w.claims[term][o] {
			x, y := o, a
			if x > y {
				x, y = y, x
			}
			w.fail("two-leaders-in-one-term", "nodes %s and %s both consider themselves leader of term %d (%s %s)", c17Names[x], c17Names[y], term, c17Names[a], how)
		}
	}
	got := 1 + len(w.grantsRecv[a][term])
	if got*2 <= w.n {
		var from []string
		for v := range w.grantsRecv[a][term] {
			from = append(from, c17Names[v])
		}
		sort.Strings(from)
		w.fail("leader-without-majority", "node %s became leader of term %d (%s) with %d of %d votes (its own and those of %v)", c17Names[a], term, how, got, w.n, from)
	}
}

func (w *c17World) snap(i int) c17Snap {
	c := w.cl[i]
	return c17Snap{term: c.fo.term, leader: c.fo.leader, sig: c.ring.Signature()}
}

// c17NodeLoopN: one distinct function per node so that a goroutine dump tells which run loop is where.
//
//go:noinline
func c17NodeLoop0(w *c17World) { w.runNode(0) }

//go:noinline
func c17NodeLoop1(w *c17World) { w.runNode(1) }

//go:noinline
func c17NodeLoop2(w *c17World) { w.runNode(2) }

//go:noinline
func c17NodeLoop3(w *c17World) { w.runNode(3) }

//go:noinline
func c17NodeLoop4(w *c17World) { w.runNode(4) }

func (w *c17World) runNode(i int) {
	defer func() {
		if r := recover(); r != nil {
			buf := make([]byte, 1<<15)
			buf = buf[:runtime.Stack(buf, false)]
			kind := fmt.Sprint(r)
			if strings.Contains(kind, "nil pointer dereference") {
				kind = "nil-pointer-dereference"
			} else if len(kind) > 40 {
				kind = kind[:40]
			}
			w.mu.Lock()
			w.panicked = true
			// the frames are best effort (inlining, truncation): they follow the marker and are not part of the digest
			act := w.action
			if w.omitQueued[i] {
				act = "on-health-check-whose-node-list-omits-the-receiver"
			}
			w.fail("run-loop-panic:"+kind+":"+act, "the failover loop of node %s panicked: %v"+c17FramesMarker+"%s", c17Names[i], r, c17PanicFrames(string(buf)))
			w.exited[i] = true
			w.mu.Unlock()
			return
		}
		w.mu.Lock()
		w.exited[i] = true
		w.mu.Unlock()
	}()
	if d := w.cs.Start[i]; d > 0 {
		time.Sleep(time.Duration(d) * time.Millisecond)
	}
	w.mu.Lock()
	w.started[i] = true
	w.mu.Unlock()
	w.cl[i].run()
}

func c17PanicFrames(st string) string {
	var out []string
	for _, ln := range strings.Split(st, "\n") {
		if k := strings.Index(ln, "/server.("); k >= 0 && !strings.HasPrefix(ln, "\t") && !strings.Contains(ln, "c17") {
			ln = ln[k+8:]
			if j := strings.LastIndexByte(ln, '('); j > 0 {
				ln = ln[:j]
			}
			out = append(out, ln)
		}
	}
	if len(out) > 5 {
		out = out[:5]
	}
	return strings.Join(out, " <- ")
}

const c17FramesMarker = " | frames: "

// refreshBusy finds out, for nodes that started an election, whether their loop is still inside electLeader.
func (w *c17World) refreshBusy() {
	need := false
	for i := 0; i < w.n; i++ {
		need = need || w.maybeBusy[i]
	}
	if !need {
		return
	}
	buf := make([]byte, 1<<16)
	for {
		k := runtime.Stack(buf, true)
		if k < len(buf) {
			buf = buf[:k]
			break
		}
		buf = make([]byte, 2*len(buf))
	}
	for i := 0; i < w.n; i++ {
		w.inElect[i] = false
	}
	for _, g := range strings.Split(string(buf), "\n\n") {
		const marker = ".c17NodeLoop"
		k := strings.Index(g, marker)
		if k < 0 || k+len(marker) >= len(g) {
			continue
		}
		i := int(g[k+len(marker)]) - '0'
		if i < 0 || i >= w.n {
			continue
		}
		if strings.Contains(g, ".(*Cluster).electLeader(") {
			w.inElect[i] = true
		}
	}
	for i := 0; i < w.n; i++ {
		if !w.inElect[i] {
			w.maybeBusy[i] = false
		}
	}
}

func (w *c17World) busy(i int) bool {
	return !w.started[i] || w.exited[i] || w.inElect[i] || w.maybeBusy[i] || w.round[i] != nil
}

// tickPending: has a heartbeat tick of node i fired since its loop became busy (it then sits in the ticker channel)?
func (w *c17World) tickPending(i int) bool {
	hb := int64(w.cs.HB[i]) * 1e6
	st := int64(w.cs.Start[i]) * 1e6
	now, since := w.now()-st, w.busySince[i]-st
	if now < 0 || since < 0 {
		return false
	}
	return now/hb > since/hb
}

func (w *c17World) loopBusy(i int) bool { return w.inElect[i] || w.maybeBusy[i] || w.round[i] != nil }

// canTake: may request it be handed to its callee's RPC handler now? Always when the callee's loop is idle. A health
// check (its handler never blocks) also when the loop is busy, provided it will be the only ready input when the
// loop comes back to its select.
func (w *c17World) canTake(it *c17Item) bool {
	b := it.callee
	if !w.started[b] || w.exited[b] {
		return false
	}
	if !w.loopBusy(b) {
		return true
	}
	if w.inElect[b] || w.maybeBusy[b] {
		// a candidate waits up to 1.5 heartbeats: a tick would pile up next to the queued check
		return false
	}
	return it.health && len(w.cl[b].fo.healthCheck)+len(w.cl[b].fo.electionVote) == 0 && !w.tickPending(b)
}

// settle waits for quiescence, re-establishes broken connections and checks harness consistency.
func (w *c17World) settle() {
	synctest.Wait()
	w.mu.Lock()
	defer w.mu.Unlock()
	w.refreshBusy()
	for a := 0; a < w.n; a++ {
		if r := w.round[a]; r != nil && r.next == len(r.parts) && len(r.waiters) == 0 && w.desync == "" {
			w.desync = fmt.Sprintf("round of %s: all %d results known, %d consumed, the loop asks for no more (event %d)", c17Names[a], len(r.parts), r.answered, w.eventIdx)
			for _, p := range r.parts {
				nd := w.cl[a].nodes[c17Names[p]]
				w.desync += fmt.Sprintf(" | %s: result=%v connected=%v up=%v failCount=%d", c17Names[p], r.results[p], nd.connected, w.up[a][p], nd.failCount)
			}
		}
	}
	for i := 0; i < w.n; i++ {
		if w.started[i] && !w.exited[i] && w.loopBusy(i) && w.race == "" {
			q := len(w.cl[i].fo.healthCheck) + len(w.cl[i].fo.electionVote)
			if w.tickPending(i) {
				q++
			}
			if q >= 2 {
				w.race = fmt.Sprintf("node %s would find %d ready inputs when its loop returns to select", c17Names[i], q)
			}
		}
	}
	reconnected := false
	for a := 0; a < w.n; a++ {
		if w.round[a] != nil || w.exited[a] {
			continue
		}
		for b := 0; b < w.n; b++ {
			if a == b {
				continue
			}
			nd := w.cl[a].nodes[c17Names[b]]
			if nd.connected && !w.up[a][b] {
				w.desync = fmt.Sprintf("link %s->%s: code says connected, transport says down", c17Names[a], c17Names[b])
			}
			if !nd.connected && !w.closing {
				w.connect(a, b)
				reconnected = true
				w.stat["reconnects"]++
			}
		}
	}
	if reconnected {
		w.mu.Unlock()
		synctest.Wait()
		w.mu.Lock()
	}
}

func (w *c17World) connect(a, b int) {
	w.gen[a][b]++
	c := &c17Codec{w: w, from: a, to: b, gen: w.gen[a][b], in: make(chan c17Resp, 256), closed: make(chan struct{})}
	w.codec[a][b] = c
	nd := w.cl[a].nodes[c17Names[b]]
	nd.lock.Lock()
	nd.endpoint = rpc.NewClientWithCodec(c)
	nd.connected = true
	nd.lock.Unlock()
	w.up[a][b] = true
}

// ------------------------------------------------------------------------------------------------ schedule actions

// deliver hands item it to its destination. Returns false when the destination cannot take it now.
func (w *c17World) deliver(it *c17Item) bool {
	w.mu.Lock()
	if !it.reply {
		if !w.canTake(it) {
			w.mu.Unlock()
			w.stat["deferred-busy-target"]++
			return false
		}
		queued := w.loopBusy(it.callee)
		if queued {
			w.stat["health-check-queued-at-busy-node"]++
			w.strike[it.callee] = 2
		}
		if it.health {
			omits := true
			for _, nm := range it.hreq.Nodes {
				omits = omits && nm != c17Names[it.callee]
			}
			w.omitQueued[it.callee] = omits && queued
		}
		w.remove(it)
		if len(w.pending) > 0 && c17ItemLess(w.pending[0], it) {
			w.stat["reordered"]++
		}
		b := it.callee
		pre := w.snap(b)
		preNotices := len(globals.hub.rehash)
		w.tr("deliver %s", it)
		w.action = "on-vote-request"
		if it.health {
			w.action = "on-health-check"
			omits := true
			for _, nm := range it.hreq.Nodes {
				omits = omits && nm != c17Names[b]
			}
			if omits {
				w.action = "on-health-check-whose-node-list-omits-the-receiver"
			}
		}
		w.mu.Unlock()
		if it.health {
			h := it.hreq
			go func() {
				unused := false
				w.cl[b].Health(&h, &unused)
				w.mu.Lock()
				w.afterHandler(it)
				w.mu.Unlock()
			}()
		} else {
			req := it.vreq
			go func() {
				var resp ClusterVoteResponse
				err := w.cl[b].Vote(&req, &resp)
				w.mu.Lock()
				if err != nil {
					w.desync = "Vote returned an error: " + err.Error()
				}
				it.vresp = resp
				if it.wire, err = c17GobEnc(&resp); err != nil {
					w.desync = "gob encoding of a vote reply failed: " + err.Error()
				}
				if resp.Result {
					w.noteVote(b, req.Term, req.Node)
					w.stat["votes-granted"]++
				} else {
					w.stat["votes-refused"]++
				}
				w.afterHandler(it)
				w.mu.Unlock()
			}()
		}
		w.settle()
		if it.health && !queued {
			// nothing but b's loop ran since pre was taken (no clock advance, no other delivery): a new notice to the
			// hub is b's
			w.judgeHealth(it, pre, len(globals.hub.rehash) > preNotices)
		}
		return true
	}
	// a reply
	w.action = "on-reply"
	w.remove(it)
	if len(w.pending) > 0 && c17ItemLess(w.pending[0], it) {
		w.stat["reordered"]++
	}
	if it.health {
		w.tr("deliver %s", it)
	} else {
		w.tr("deliver %s granted=%v", it, it.vresp.Result)
	}
	if it.health {
		w.setHealthResult(it.caller, it.callee, true, true)
	} else {
		// the candidate's loop is blocked inside electLeader (or has left it): its term can be read
		counting := (w.inElect[it.caller] || w.maybeBusy[it.caller]) && w.cl[it.caller].fo.term == it.vreq.Term
		if w.respond(it.caller, it.callee, it.gen, c17Resp{seq: it.rpcSeq, body: it.wire}) {
			if counting {
				// the situations a reply buffer shared between the calls of one election would get wrong
				switch g := len(w.grantsRecv[it.caller][it.vreq.Term]); {
				case !it.vresp.Result && g > 0:
					w.stat["refusal-after-grant"]++
					if (1+g)*2 <= w.n {
						// counting this refusal as a vote would make a leader without a majority
						w.stat["refusal-after-minority-of-grants"]++
					}
				case it.vresp.Result && w.refusedRecv[it.caller][it.vreq.Term] > 0:
					w.stat["grant-after-refusal"]++
				}
				if !it.vresp.Result {
					w.refusedRecv[it.caller][it.vreq.Term]++
				}
			}
			if it.vresp.Result {
				if w.grantsRecv[it.caller][it.vreq.Term] == nil {
					w.grantsRecv[it.caller][it.vreq.Term] = map[int]bool{}
				}
				w.grantsRecv[it.caller][it.vreq.Term][it.callee] = true
			}
		} else {
			w.stat["reply-to-closed-connection"]++
		}
	}
	w.mu.Unlock()
	w.settle()
	return true
}

// afterHandler: the callee's handler returned; its reply enters the network (w.mu held).
func (w *c17World) afterHandler(it *c17Item) {
	rep := *it
	rep.reply = true
	rep.at = w.now()
	if !it.health && (w.gen[it.caller][it.callee] != it.gen || !w.up[it.caller][it.callee]) {
		w.stat["reply-to-closed-connection"]++
		return
	}
	if w.cut[it.caller][it.callee] || w.closing {
		w.dropLocked(&rep, false)
		return
	}
	w.insert(&rep)
}

// dropLocked loses an item: the caller sees an RPC error.
func (w *c17World) dropLocked(it *c17Item, listed bool) {
	if listed {
		w.remove(it)
	}
	w.tr("lose %s", it)
	if it.health {
		w.setHealthResult(it.caller, it.callee, false, true)
	} else {
		w.voteError(it, "message lost")
	}
}

func (w *c17World) drop(it *c17Item) {
	w.mu.Lock()
	w.action = "on-message-loss"
	w.stat["dropped"]++
	w.dropLocked(it, true)
	w.mu.Unlock()
	w.settle()
}

func (w *c17World) setCut(a, b int, v bool) {
	if a == b || a < 0 || b < 0 || a >= w.n || b >= w.n {
		return
	}
	w.mu.Lock()
	w.action = "on-partition-change"
	if w.cut[a][b] != v {
		w.cut[a][b], w.cut[b][a] = v, v
		if v {
			w.stat["cuts"]++
			w.tr("cut %s-%s", c17Names[a], c17Names[b])
			for _, it := range append([]*c17Item(nil), w.pending...) {
				if (it.caller == a && it.callee == b) || (it.caller == b && it.callee == a) {
					// the item may already have been removed by the cascade of an earlier failure
					if w.remove(it) {
						w.stat["lost-by-partition"]++
						w.dropLocked(it, false)
					}
				}
			}
		} else {
			w.tr("heal %s-%s", c17Names[a], c17Names[b])
		}
	}
	w.mu.Unlock()
}

func (w *c17World) currentLeader() int {
	best, bt := -1, -1
	for i := 0; i < w.n; i++ {
		if w.exited[i] {
			continue
		}
		s := w.snap(i)
		if s.leader == c17Names[i] && s.term > bt {
			best, bt = i, s.term
		}
	}
	return best
}

func (w *c17World) step(ev c17Ev) {
	switch ev.K {
	case "adv":
		d := ev.A
		if d < 1 {
			d = 1
		}
		if d > 2000 {
			d = 2000
		}
		w.mu.Lock()
		w.action = "on-clock-advance"
		w.mu.Unlock()
		time.Sleep(time.Duration(d) * time.Millisecond)
		w.settle()
	case "dlv", "drop":
		w.mu.Lock()
		if len(w.pending) == 0 {
			w.mu.Unlock()
			w.stat["noop-events"]++
			return
		}
		k := ev.A
		if k < 0 {
			k = -k
		}
		it := w.pending[k%len(w.pending)]
		w.mu.Unlock()
		if ev.K == "dlv" {
			w.deliver(it)
		} else {
			w.drop(it)
		}
	case "flush", "mix":
		// deliver everything deliverable until nothing moves (bounded). flush: oldest first, so the requests of the
		// candidate that started first (or has the lower name) all arrive before its rival's. mix: the k-th delivery
		// takes the oldest or the newest deliverable item as bit k of the pattern says, which interleaves the vote
		// requests of competing candidates (split votes) and lets refusals overtake grants.
		for guard := 0; guard < 200; guard++ {
			w.mu.Lock()
			var it *c17Item
			newest := ev.K == "mix" && (ev.A>>(uint(guard)%16))&1 == 1
			for _, p := range w.pending {
				if p.reply || w.canTake(p) {
					it = p
					if !newest {
						break
					}
				}
			}
			w.mu.Unlock()
			if it == nil || w.viol != nil || w.desync != "" || w.race != "" {
				break
			}
			w.deliver(it)
		}
	case "cut":
		w.setCut(ev.A, ev.B, true)
		w.settle()
	case "heal":
		w.setCut(ev.A, ev.B, false)
		w.settle()
	case "iso":
		for b := 0; b < w.n; b++ {
			w.setCut(ev.A, b, true)
		}
		w.settle()
	case "healall":
		for a := 0; a < w.n; a++ {
			for b := a + 1; b < w.n; b++ {
				w.setCut(a, b, false)
			}
		}
		w.settle()
	case "cutl", "isol":
		l := w.currentLeader()
		if l < 0 {
			w.stat["noop-events"]++
			return
		}
		if ev.K == "isol" {
			for b := 0; b < w.n; b++ {
				w.setCut(l, b, true)
			}
		} else {
			k := ev.A
			if k < 0 {
				k = -k
			}
			p := k % (w.n - 1)
			if p >= l {
				p++
			}
			w.setCut(l, p, true)
		}
		w.settle()
	default:
		w.stat["noop-events"]++
	}
}

// ------------------------------------------------------------------------------------------------ oracles

func c17SigOf(nodes []string) string {
	r := rh.New(clusterHashReplicas, nil)
	r.Add(nodes...)
	return r.Signature()
}

// judgeHealth: node b's loop was idle, received health check it and is quiescent again. hubTold: b's loop told the
// hub to rehash while it processed the check (Cluster.run does that when, and only when, it rehashes to the check's
// node list).
func (w *c17World) judgeHealth(it *c17Item, pre c17Snap, hubTold bool) {
	w.mu.Lock()
	defer w.mu.Unlock()
	if w.panicked {
		return
	}
	b := it.callee
	h := it.hreq
	sorted := append([]string(nil), h.Nodes...) // the leader builds the list in map order: sort it for messages
	sort.Strings(sorted)
	post := w.snap(b)
	w.healthSeen++
	if h.Term < pre.term {
		w.stat["stale-health-checks"]++
		if post != pre {
			w.fail("stale-health-check-changed-state", "node %s (term %d, leader %q, ring %s) received a health check of term %d from %s and now has term %d, leader %q, ring %s",
				c17Names[b], pre.term, pre.leader, pre.sig, h.Term, h.Leader, post.term, post.leader, post.sig)
		}
		return
	}
	w.stat["accepted-health-checks"]++
	if post.term != h.Term || post.leader != h.Leader {
		w.fail("health-check-leader-not-adopted", "node %s (term %d, leader %q) accepted a health check of term %d from %s but now has term %d, leader %q",
			c17Names[b], pre.term, pre.leader, h.Term, h.Leader, post.term, post.leader)
		return
	}
	if h.Signature == pre.sig {
		if post.sig != pre.sig {
			w.fail("health-check-ring-changed-without-cause", "node %s had the leader's ring %s already but now has %s", c17Names[b], pre.sig, post.sig)
		}
		return
	}
	switch w.strike[b] {
	case 0:
		// first check with a different ring: the code waits for a second one before rehashing
		w.strike[b] = 1
		w.stat["ring-mismatch-first"]++
		w.tr("%s: ring mismatch, first strike", c17Names[b])
		return
	case 2:
		// The node processed a check while the harness could not watch it, so whether the code's rehashSkipped is
		// set is not known: find out from what the code did now. A changed ring is a rehash: second strike. An
		// unchanged ring is the first strike only if a rehash to this check's node list would have changed it. When
		// the list's ring is the ring the node has already (a leader whose Signature is not that of its Nodes: the
		// known finding health-check-ring-signature-not-adopted), the code's second strike rehashes to the same ring,
		// clears rehashSkipped and leaves no trace in the ring; what tells the two apart is the rehash notice
		// Cluster.run sends to the hub with every rehash. Taking that case for a first strike (as this model did) put
		// the model one check ahead of the code: it then demanded adoption at the code's next FIRST mismatching check.
		if post.sig == pre.sig && !(hubTold && c17SigOf(h.Nodes) == pre.sig) {
			w.strike[b] = 1
			w.stat["ring-mismatch-first"]++
			w.tr("%s: ring mismatch, first strike (unwatched check before it)", c17Names[b])
			return
		}
		if post.sig == pre.sig {
			w.stat["second-strike-rehash-to-same-ring"]++
		}
	}
	w.strike[b] = 0
	w.stat["ring-mismatch-second"]++
	w.tr("%s: ring mismatch, second strike", c17Names[b])
	if want := c17SigOf(h.Nodes); post.sig != want {
		w.fail("health-check-node-list-not-adopted", "node %s accepted a second health check with another ring (leader %s, term %d, nodes %v) but its ring %s is not the ring of that node list (%s)",
			c17Names[b], h.Leader, h.Term, sorted, post.sig, want)
		return
	}
	if post.sig != h.Signature {
		w.fail("health-check-ring-signature-not-adopted", "node %s accepted a second health check with another ring from leader %s (term %d): the check carries node list %v and ring signature %s, "+
			"the node now has the ring of that list, %s, which is not the leader's ring", c17Names[b], h.Leader, h.Term, sorted, h.Signature, post.sig)
		return
	}
	w.rehashAdopts++
	w.stat["ring-adopted"]++
}

// observe checks the state invariants at a quiescent point.
func (w *c17World) observe() {
	w.mu.Lock()
	defer w.mu.Unlock()
	if w.panicked {
		return
	}
	for i := 0; i < w.n; i++ {
		if w.exited[i] {
			continue
		}
		s := w.snap(i)
		if s.term < w.lastTerm[i] {
			w.fail("term-decreased", "node %s went from term %d to term %d", c17Names[i], w.lastTerm[i], s.term)
		}
		w.lastTerm[i] = s.term
		if s.leader == c17Names[i] {
			w.noteClaim(i, s.term, "state")
			if !w.busy(i) {
				reach := 1
				for p := 0; p < w.n; p++ {
					if p != i && w.hcFail[i][p] < w.cs.FailAfter {
						reach++
					}
				}
				if reach*2 <= w.n {
					w.stat["leader-in-minority-probes"]++
					part := w.cl[i].isPartitioned()
					code := c17Probe(w.cl[i])
					if !part || code != 502 {
						w.fail("minority-leader-serves-clients", "leader %s (term %d) failed %d or more health checks in a row to all but %d of its %d peers, so it reaches %d of %d nodes; isPartitioned()=%v, a client request got code %d (want 502)",
							c17Names[i], s.term, w.cs.FailAfter, reach-1, w.n-1, reach, w.n, part, code)
					}
				}
			}
		}
	}
	if w.wantTrace {
		var sb strings.Builder
		for i := 0; i < w.n; i++ {
			s := w.snap(i)
			fmt.Fprintf(&sb, "%s:t%d,l=%s,%s ", c17Names[i], s.term, s.leader, s.sig[:4])
		}
		w.tr("state %s pending %d", sb.String(), len(w.pending))
	}
}

// c17Probe sends one client request through Session.dispatch with node c as the process's cluster and returns the
// code of the {ctrl} answer (0: no answer, the request went on to its handler).
func c17Probe(c *Cluster) int {
	save := globals.cluster
	globals.cluster = c
	defer func() { globals.cluster = save }()
	s := &Session{sid: "c17probe", send: make(chan any, 4)}
	s.dispatch(&ClientComMessage{Note: &MsgClientNote{Topic: "me", What: "kp"}})
	select {
	case m := <-s.send:
		if sm, ok := m.(*ServerComMessage); ok && sm.Ctrl != nil {
			return sm.Ctrl.Code
		}
		return -1
	default:
		return 0
	}
}

// ------------------------------------------------------------------------------------------------ running a case

func c17SimValid(c *c17SimCase) bool {
	if c.N < 3 || c.N > 5 || len(c.HB) != c.N || len(c.Start) != c.N || c.VoteAfter < 1 || c.VoteAfter > 16 ||
		c.FailAfter < 1 || c.FailAfter > 16 || len(c.Ev) > 2000 {
		return false
	}
	for i := range c.HB {
		if c.HB[i] < 20 || c.HB[i] > 1000 || c.Start[i] < 0 || c.Start[i] > 5000 {
			return false
		}
	}
	return true
}

type c17SimResult struct {
	viol   *kit.Viol
	desync string
	stat   map[string]int
	final  string
	trace  []string
	w      *c17World
}

// c17SimWorld runs inside the bubble.
func c17SimWorld(cs *c17SimCase, wantTrace bool) (res c17SimResult) {
	n := cs.N
	w := &c17World{cs: cs, n: n, t0: time.Now(), stat: map[string]int{}, claims: map[int]map[int]bool{}, candidacies: map[int]map[int]bool{}, wantTrace: wantTrace}
	res.w = w
	mk := func() [][]int {
		m := make([][]int, n)
		for i := range m {
			m[i] = make([]int, n)
		}
		return m
	}
	w.gen, w.lseq, w.hcFail = mk(), mk(), mk()
	w.up, w.cut = make([][]bool, n), make([][]bool, n)
	w.codec = make([][]*c17Codec, n)
	for i := 0; i < n; i++ {
		w.up[i], w.cut[i] = make([]bool, n), make([]bool, n)
		w.codec[i] = make([]*c17Codec, n)
	}
	w.round = make([]*c17Round, n)
	w.started, w.exited, w.maybeBusy, w.inElect = make([]bool, n), make([]bool, n), make([]bool, n), make([]bool, n)
	w.strike, w.busySince, w.omitQueued = make([]int8, n), make([]int64, n), make([]bool, n)
	w.lastTerm = make([]int, n)
	for i := 0; i < n; i++ {
		w.votes = append(w.votes, map[int]int{})
		w.voteLog = append(w.voteLog, map[int][]string{})
		w.grantsRecv = append(w.grantsRecv, map[int]map[int]bool{})
		w.refusedRecv = append(w.refusedRecv, map[int]int{})
	}

	saveHub, saveCl := globals.hub, globals.cluster
	globals.hub = &Hub{topics: &sync.Map{}, rehash: make(chan bool, 1<<14)}
	globals.cluster = nil
	defer func() { globals.hub, globals.cluster = saveHub, saveCl }()

	for i := 0; i < n; i++ {
		c := &Cluster{thisNodeName: c17Names[i], fingerprint: int64(i + 1), nodes: map[string]*ClusterNode{}}
		for j := 0; j < n; j++ {
			if j != i {
				c.nodes[c17Names[j]] = &ClusterNode{name: c17Names[j], address: "c17-no-network", done: make(chan bool, 1), msess: map[string]struct{}{}}
			}
		}
		if !c.failoverInit(&clusterFailoverConfig{Enabled: true, Heartbeat: 100, VoteAfter: cs.VoteAfter, NodeFailAfter: cs.FailAfter}) {
			res.desync = "failoverInit refused the configuration"
			return
		}
		c.fo.heartBeat = time.Duration(cs.HB[i]) * time.Millisecond
		w.cl = append(w.cl, c)
	}
	for a := 0; a < n; a++ {
		for b := 0; b < n; b++ {
			if a != b {
				w.connect(a, b)
			}
		}
	}
	runners := []func(*c17World){c17NodeLoop0, c17NodeLoop1, c17NodeLoop2, c17NodeLoop3, c17NodeLoop4}
	for i := 0; i < n; i++ {
		go runners[i](w)
	}
	w.settle()

	for idx, ev := range cs.Ev {
		w.eventIdx = idx
		w.lastEvent = ev.K + " " + strconv.Itoa(ev.A)
		if ev.K == "cut" || ev.K == "heal" {
			w.lastEvent += " " + strconv.Itoa(ev.B)
		}
		w.step(ev)
		w.observe()
		if w.viol != nil || w.desync != "" || w.race != "" {
			break
		}
	}
	if w.race != "" {
		w.stat["ended-early-select-race"]++
	}

	// the judged history ends here: what the loops do while being stopped is not part of it
	w.mu.Lock()
	res.stat = map[string]int{}
	for k, v := range w.stat {
		res.stat[k] = v
	}
	for i := 0; i < n; i++ {
		sn := w.snap(i)
		res.final += fmt.Sprintf("%d:%d/%s/%s;", i, sn.term, sn.leader, sn.sig)
	}
	res.viol, res.desync, res.trace = w.viol, w.desync, w.trace
	w.mu.Unlock()

	// ---- teardown: fail everything in flight, stop the loops, close the connections
	w.mu.Lock()
	w.closing = true
	for _, it := range append([]*c17Item(nil), w.pending...) {
		if w.remove(it) {
			w.dropLocked(it, false)
		}
	}
	w.mu.Unlock()
	synctest.Wait()
	for i := 0; i < n; i++ {
		select {
		case w.cl[i].fo.done <- true:
		default:
		}
	}
	for tries := 0; tries < 50; tries++ {
		synctest.Wait()
		all := true
		w.mu.Lock()
		for i := 0; i < n; i++ {
			all = all && w.exited[i]
		}
		w.mu.Unlock()
		if all {
			break
		}
		time.Sleep(50 * time.Millisecond)
	}
	for a := 0; a < n; a++ {
		for _, nd := range w.cl[a].nodes {
			nd.lock.Lock()
			rec := nd.reconnecting
			ep := nd.endpoint
			nd.lock.Unlock()
			if rec {
				select {
				case nd.done <- true:
				default:
				}
			}
			if ep != nil {
				ep.Close()
			}
		}
		for b := 0; b < n; b++ {
			if c := w.codec[a][b]; c != nil {
				c.Close()
			}
		}
	}
	synctest.Wait()

	return
}

// c17SimRun executes one case in a fresh bubble.
func c17SimRun(t *testing.T, cs *c17SimCase, wantTrace bool) (res c17SimResult, crashed any) {
	synctest.Test(t, func(t *testing.T) {
		defer func() {
			if r := recover(); r != nil {
				crashed = r
			}
		}()
		res = c17SimWorld(cs, wantTrace)
	})
	return
}

func c17SimDigest(res c17SimResult) string {
	keys := make([]string, 0, len(res.stat))
	for k := range res.stat {
		keys = append(keys, k)
	}
	sort.Strings(keys)
	var sb strings.Builder
	for _, k := range keys {
		fmt.Fprintf(&sb, "%s=%d;", k, res.stat[k])
	}
	sb.WriteString(res.final)
	if res.viol != nil {
		msg := res.viol.Msg
		if k := strings.Index(msg, c17FramesMarker); k >= 0 {
			msg = msg[:k]
		}
		sb.WriteString(res.viol.Sig + "|" + msg)
	}
	return sb.String()
}

func c17Bucket(v int) string {
	switch {
	case v >= 3:
		return "3+"
	default:
		return strconv.Itoa(v)
	}
}

func c17SimExec(t *testing.T) func(c17SimCase) kit.Outcome {
	return func(cs c17SimCase) kit.Outcome {
		if !c17SimValid(&cs) {
			return kit.Outcome{Skip: true}
		}
		wantTrace := os.Getenv("C17_TRACE") != ""
		res, crashed := c17SimRun(t, &cs, wantTrace)
		if wantTrace {
			fmt.Println(strings.Join(res.trace, "\n"))
		}
		o := kit.Outcome{}
		// Problems of the simulator itself are never reported as violations of the property: the case is skipped
		// (counted by the kit) and a line is printed. C17_DEV=1 turns them into failures to get a replay file.
		harness := func(sig, msg string) kit.Outcome {
			fmt.Printf("C17-HARNESS-PROBLEM %s: %s\n", sig, msg)
			if os.Getenv("C17_DEV") != "" {
				return kit.Outcome{Viol: kit.V(sig, "%s", msg)}
			}
			return kit.Outcome{Skip: true}
		}
		if crashed != nil {
			return harness("harness-crash", fmt.Sprintf("the simulator itself panicked: %v", crashed))
		}
		if res.desync != "" {
			return harness("harness-desync", res.desync)
		}
		// determinism guard: a share of the cases, and every case with a violation, is executed twice and must give
		// the same history
		if kit.Hash(cs)%4 == 0 || res.viol != nil {
			res2, crashed2 := c17SimRun(t, &cs, false)
			if crashed2 != nil || c17SimDigest(res) != c17SimDigest(res2) {
				return harness("harness-nondeterministic", "the same schedule gave two different histories: "+c17SimDigest(res)+" / "+c17SimDigest(res2))
			}
			o.Classes = append(o.Classes, "determinism-rechecked")
		}
		st := res.stat
		cand := map[int]bool{}
		competing := false
		for _, m := range res.w.candidacies {
			for a := range m {
				cand[a] = true
			}
			if len(m) >= 2 {
				competing = true
			}
		}
		lost := st["dropped"] + st["lost-by-partition"] + st["failed-at-send"]
		o.NonTrivial = len(cand) >= 2 && (lost > 0 || st["reordered"] > 0)
		o.Classes = append(o.Classes,
			"n="+strconv.Itoa(cs.N),
			"elections="+c17Bucket(st["elections"]),
			"candidates="+c17Bucket(len(cand)),
			"leaders="+c17Bucket(st["leaders"]))
		flag := func(cond bool, name string) {
			if cond {
				o.Classes = append(o.Classes, name)
			}
		}
		flag(competing, "two-candidates-in-one-term")
		flag(lost > 0, "messages-lost")
		flag(st["dropped"] > 0, "messages-dropped-by-schedule")
		flag(st["reordered"] > 0, "messages-reordered")
		flag(st["cuts"] > 0, "partitions")
		flag(st["stale-health-checks"] > 0, "stale-health-check-seen")
		flag(st["accepted-health-checks"] > 0, "health-check-accepted")
		flag(st["ring-mismatch-first"] > 0, "ring-mismatch-first-strike")
		flag(st["ring-adopted"] > 0, "ring-adopted-on-second-strike")
		flag(st["leader-in-minority-probes"] > 0, "minority-leader-probed-502")
		flag(st["votes-refused"] > 0, "vote-refused")
		if cs.N >= 4 {
			// split votes in clusters where one grant is not yet a majority
			flag(competing, "n>=4:two-candidates-in-one-term")
			flag(st["refusal-after-minority-of-grants"] > 0, "n>=4:refusal-reaches-candidate-holding-a-minority-of-grants")
			flag(st["grant-after-refusal"] > 0, "n>=4:grant-reaches-candidate-after-a-refusal")
		}
		flag(st["deferred-busy-target"] > 0, "delivery-deferred-busy-target")
		flag(st["reconnects"] > 0, "reconnects")
		flag(st["health-check-queued-at-busy-node"] > 0, "health-check-queued-at-busy-node")
		flag(st["ended-early-select-race"] > 0, "ended-early-select-race")
		o.Viol = res.viol
		return o
	}
}

func c17SimGen(rt *rapid.T) c17SimCase {
	var c c17SimCase
	c.N = rapid.IntRange(3, 5).Draw(rt, "n")
	sameHB := rapid.IntRange(0, 5).Draw(rt, "samehb") == 0
	base := rapid.IntRange(75, 124).Draw(rt, "hb0")
	for i := 0; i < c.N; i++ {
		hb := base
		if !sameHB {
			hb = rapid.IntRange(75, 124).Draw(rt, "hb")
		}
		c.HB = append(c.HB, hb)
		st := 0
		if rapid.IntRange(0, 2).Draw(rt, "delayed") == 0 {
			st = rapid.IntRange(0, 120).Draw(rt, "start")
		}
		c.Start = append(c.Start, st)
	}
	c.VoteAfter = rapid.IntRange(1, 4).Draw(rt, "vote_after")
	c.FailAfter = rapid.IntRange(1, 4).Draw(rt, "fail_after")
	minBlocks, maxBlocks := 90, 160
	if rapid.IntRange(0, 4).Draw(rt, "short") == 0 {
		minBlocks, maxBlocks = 0, 60
	}
	blocks := rapid.SliceOfN(rapid.Custom(func(t *rapid.T) []c17Ev { return c17GenEvent(t, c.N) }), minBlocks, maxBlocks).Draw(rt, "blocks")
	for _, b := range blocks {
		c.Ev = append(c.Ev, b...)
	}
	if len(c.Ev) > 200 {
		c.Ev = c.Ev[:200]
	}
	return c
}

func c17GenEvent(rt *rapid.T, n int) []c17Ev {
	k := rapid.IntRange(0, 99).Draw(rt, "kind")
	switch {
	case k < 22:
		return []c17Ev{{K: "adv", A: rapid.SampledFrom([]int{3, 5, 10, 20, 30}).Draw(rt, "ms")}, {K: "flush"}}
	case k < 28:
		return []c17Ev{{K: "adv", A: rapid.SampledFrom([]int{3, 5, 10, 20, 30}).Draw(rt, "ms")}, {K: "mix", A: rapid.IntRange(1, 0xffff).Draw(rt, "pattern")}}
	case k < 38:
		return []c17Ev{{K: "adv", A: rapid.SampledFrom([]int{5, 10, 20, 40, 60, 100, 130, 200}).Draw(rt, "ms")}}
	case k < 48:
		return []c17Ev{{K: "adv", A: rapid.SampledFrom([]int{60, 100, 130}).Draw(rt, "ms")}, {K: "flush"}}
	case k < 51:
		return []c17Ev{{K: "flush"}}
	case k < 54:
		return []c17Ev{{K: "mix", A: rapid.IntRange(1, 0xffff).Draw(rt, "pattern")}}
	case k < 74:
		idx := 0
		if rapid.IntRange(0, 2).Draw(rt, "old") == 0 {
			idx = rapid.IntRange(0, 7).Draw(rt, "idx")
		}
		return []c17Ev{{K: "dlv", A: idx}}
	case k < 80:
		return []c17Ev{{K: "drop", A: rapid.IntRange(0, 7).Draw(rt, "idx")}}
	case k < 85:
		return []c17Ev{{K: "cutl", A: rapid.IntRange(0, n-2).Draw(rt, "peer")}}
	case k < 87:
		return []c17Ev{{K: "isol"}}
	case k < 90:
		a := rapid.IntRange(0, n-1).Draw(rt, "a")
		b := rapid.IntRange(0, n-2).Draw(rt, "b")
		if b >= a {
			b++
		}
		return []c17Ev{{K: "cut", A: a, B: b}}
	case k < 92:
		return []c17Ev{{K: "iso", A: rapid.IntRange(0, n-1).Draw(rt, "a")}}
	case k < 95:
		a := rapid.IntRange(0, n-1).Draw(rt, "a")
		b := rapid.IntRange(0, n-2).Draw(rt, "b")
		if b >= a {
			b++
		}
		return []c17Ev{{K: "heal", A: a, B: b}}
	default:
		return []c17Ev{{K: "healall"}}
	}
}

func TestC17Election(t *testing.T) {
	logs.Init(io.Discard, "stdFlags")
	kit.Check(t, "C17", "TestC17Election", c17SimGen, c17SimExec(t))
}
