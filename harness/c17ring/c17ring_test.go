package ringhash

// C17 (i) — placement laws of the consistent-hash ring.
//
// Oracles come from the property statement only:
//   * same set of node names => same Get(k) for every key and same Signature(), whatever the order of the names;
//   * every key maps to exactly one member of the set (and to the same one when asked again);
//   * removing node x changes Get(k) only for keys that mapped to x;
//   * adding node y changes Get(k) only to y;
//   * sets that differ have different signatures (a genuine collision of the signature's input byte stream is
//     counted in a class; equal signatures over different input streams are a violation).
// Caller precondition respected (cluster.go rehash): a ring is built by New + exactly one Add with distinct names.

import (
	"hash/crc32"
	"sort"
	"strconv"
	"testing"

	kit "github.com/tinode/chat/server/zzverifkit"
	"pgregory.net/rapid"
)

type c17RingCase struct {
	Names     []string `json:"names"`    // distinct node names, generation order
	Perm      []int    `json:"perm"`     // a permutation of 0..len(Names)-1
	Replicas  int      `json:"replicas"` // 1..64
	WeakMod   int      `json:"weak_mod"` // 0: default crc32 (what cluster.go uses); >0: crc32 % WeakMod (forces hash ties)
	Keys      []string `json:"keys"`
	KeyPrefix string   `json:"key_prefix"`
	KeyCount  int      `json:"key_count"` // adds KeyPrefix+"0".."n-1"
	Remove    int      `json:"remove"`    // index into Names of the node to remove
	Add       string   `json:"add"`       // node to add (not in Names)
}

func c17RingHash(mod int) Hash {
	if mod <= 0 {
		return nil
	}
	return func(b []byte) uint32 { return crc32.ChecksumIEEE(b) % uint32(mod) }
}

func c17RingBuild(names []string, replicas, mod int) *Ring {
	r := New(replicas, c17RingHash(mod))
	r.Add(names...)
	return r
}

// reference input stream of the signature: 4 little-endian hash bytes + name, per replica, in ring order.
func c17RingStream(r *Ring) string {
	var b []byte
	for _, e := range r.keys {
		b = append(b, byte(e.hash), byte(e.hash>>8), byte(e.hash>>16), byte(e.hash>>24))
		b = append(b, e.key...)
	}
	return string(b)
}

func c17RingGenName(rt *rapid.T, have []string) string {
	switch rapid.IntRange(0, 9).Draw(rt, "nstyle") {
	case 0:
		return rapid.StringOfN(rapid.RuneFrom([]rune("01")), 0, 3, -1).Draw(rt, "digits")
	case 1, 2:
		if len(have) > 0 {
			base := rapid.SampledFrom(have).Draw(rt, "base")
			return base + rapid.StringOfN(rapid.RuneFrom([]rune("01a-é")), 0, 2, -1).Draw(rt, "ext")
		}
		return "a"
	case 3:
		if len(have) > 0 {
			base := []rune(rapid.SampledFrom(have).Draw(rt, "base"))
			return string(base[:rapid.IntRange(0, len(base)).Draw(rt, "cut")])
		}
		return ""
	case 4:
		return rapid.String().Draw(rt, "uni")
	case 5:
		return rapid.SampledFrom([]string{"", " ", "\x00", "0", "1", "10", "00", "one", "two", "three", "node", "Node", "nodé", "節点"}).Draw(rt, "fixed")
	default:
		return rapid.StringOfN(rapid.RuneFrom([]rune("abcxyz019-_.")), 1, 8, -1).Draw(rt, "plain")
	}
}

func c17RingGen(rt *rapid.T) c17RingCase {
	var c c17RingCase
	n := rapid.IntRange(1, 9).Draw(rt, "n")
	seen := map[string]bool{}
	for tries := 0; len(c.Names) < n && tries < 60; tries++ {
		nm := c17RingGenName(rt, c.Names)
		if !seen[nm] {
			seen[nm] = true
			c.Names = append(c.Names, nm)
		}
	}
	c.Perm = rapid.Permutation(c17Iota(len(c.Names))).Draw(rt, "perm")
	if rapid.IntRange(0, 3).Draw(rt, "rsmall") == 0 {
		c.Replicas = rapid.IntRange(1, 3).Draw(rt, "replicas")
	} else {
		c.Replicas = rapid.IntRange(1, 64).Draw(rt, "replicas")
	}
	if rapid.IntRange(0, 2).Draw(rt, "weak") == 0 {
		c.WeakMod = rapid.IntRange(1, 97).Draw(rt, "mod")
	}
	c.Keys = rapid.SliceOfN(rapid.OneOf(rapid.String(),
		rapid.StringOfN(rapid.RuneFrom([]rune("usrgpchn0123456789AZaz_-")), 0, 12, -1)), 0, 12).Draw(rt, "keys")
	c.KeyPrefix = rapid.SampledFrom([]string{"usr", "grp", "p2p", "", "chn", "0", "1"}).Draw(rt, "kp")
	if rapid.IntRange(0, 4).Draw(rt, "fewkeys") == 0 {
		c.KeyCount = rapid.IntRange(0, 20).Draw(rt, "kc")
	} else {
		c.KeyCount = rapid.IntRange(100, 400).Draw(rt, "kc")
	}
	c.Remove = rapid.IntRange(0, len(c.Names)-1).Draw(rt, "remove")
	for tries := 0; ; tries++ {
		c.Add = c17RingGenName(rt, c.Names)
		if !seen[c.Add] {
			break
		}
		if tries > 20 {
			c.Add = c.Names[0] + "+new"
			for seen[c.Add] {
				c.Add += "+"
			}
			break
		}
	}
	return c
}

func c17Iota(n int) []int {
	s := make([]int, n)
	for i := range s {
		s[i] = i
	}
	return s
}

func c17RingValid(c c17RingCase) bool {
	if len(c.Names) < 1 || len(c.Names) > 9 || len(c.Perm) != len(c.Names) || c.Replicas < 1 || c.Replicas > 64 ||
		c.Remove < 0 || c.Remove >= len(c.Names) || c.KeyCount < 0 || c.KeyCount > 5000 {
		return false
	}
	seen := map[string]bool{}
	for _, nm := range c.Names {
		if seen[nm] {
			return false
		}
		seen[nm] = true
	}
	if seen[c.Add] {
		return false
	}
	p := append([]int(nil), c.Perm...)
	sort.Ints(p)
	for i, v := range p {
		if v != i {
			return false
		}
	}
	return true
}

func c17RingExec(c c17RingCase) kit.Outcome {
	if !c17RingValid(c) {
		return kit.Outcome{Skip: true}
	}
	sfx := ""
	o := kit.Outcome{}
	if c.WeakMod > 0 {
		sfx = ":weakhash"
		o.Classes = append(o.Classes, "hash=weak")
	} else {
		o.Classes = append(o.Classes, "hash=crc32")
	}
	o.Classes = append(o.Classes, "nodes="+strconv.Itoa(len(c.Names)))

	// Keys: drawn ones, generated family, and strings that hash exactly onto a replica point.
	keys := append([]string(nil), c.Keys...)
	for j := 0; j < c.KeyCount; j++ {
		keys = append(keys, c.KeyPrefix+strconv.Itoa(j))
	}
	for _, nm := range c.Names {
		keys = append(keys, nm)
		for i := 0; i < c.Replicas && i < 3; i++ {
			keys = append(keys, strconv.Itoa(i)+nm)
		}
	}
	o.NonTrivial = len(c.Names) >= 3 && len(keys) >= 100

	permuted := make([]string, len(c.Names))
	for i, p := range c.Perm {
		permuted[i] = c.Names[p]
	}
	member := map[string]bool{}
	for _, nm := range c.Names {
		member[nm] = true
	}

	r1 := c17RingBuild(c.Names, c.Replicas, c.WeakMod)
	r2 := c17RingBuild(permuted, c.Replicas, c.WeakMod)
	if r1.Signature() != r2.Signature() {
		o.Viol = kit.V("order-dependent-signature"+sfx, "names %q and permutation %q (replicas %d) give signatures %q and %q",
			c.Names, permuted, c.Replicas, r1.Signature(), r2.Signature())
		return o
	}
	if r1.Signature() == "" {
		o.Viol = kit.V("empty-signature"+sfx, "ring of %q has an empty signature", c.Names)
		return o
	}

	var without []string
	for i, nm := range c.Names {
		if i != c.Remove {
			without = append(without, nm)
		}
	}
	removed := c.Names[c.Remove]
	var rRem *Ring
	if len(without) > 0 {
		rRem = c17RingBuild(without, c.Replicas, c.WeakMod)
	}
	rAdd := c17RingBuild(append(append([]string(nil), permuted...), c.Add), c.Replicas, c.WeakMod)

	owned := map[string]int{}
	moved, movedTo := 0, 0
	for _, k := range keys {
		g1 := r1.Get(k)
		if !member[g1] {
			o.Viol = kit.V("owner-not-member"+sfx, "Get(%q)=%q is not one of %q", k, g1, c.Names)
			return o
		}
		if again := r1.Get(k); again != g1 {
			o.Viol = kit.V("owner-unstable"+sfx, "Get(%q) gave %q then %q on the same ring", k, g1, again)
			return o
		}
		if g2 := r2.Get(k); g2 != g1 {
			o.Viol = kit.V("order-dependent-owner"+sfx, "Get(%q)=%q with names %q but %q with the same names ordered %q (replicas %d)",
				k, g1, c.Names, g2, permuted, c.Replicas)
			return o
		}
		owned[g1]++
		if rRem != nil {
			g := rRem.Get(k)
			if g == removed || !member[g] {
				o.Viol = kit.V("owner-not-member"+sfx, "after removing %q from %q Get(%q)=%q", removed, c.Names, k, g)
				return o
			}
			if g != g1 {
				moved++
				if g1 != removed {
					o.Viol = kit.V("remove-moved-foreign-key"+sfx, "removing node %q from %q (replicas %d) moved key %q from %q to %q",
						removed, c.Names, c.Replicas, k, g1, g)
					return o
				}
			}
		}
		if g := rAdd.Get(k); g != g1 {
			movedTo++
			if g != c.Add {
				o.Viol = kit.V("add-moved-to-old-node"+sfx, "adding node %q to %q (replicas %d) moved key %q from %q to %q",
					c.Add, c.Names, c.Replicas, k, g1, g)
				return o
			}
		}
	}
	if moved > 0 {
		o.Classes = append(o.Classes, "remove-moved-keys")
	}
	if movedTo > 0 {
		o.Classes = append(o.Classes, "add-moved-keys")
	}
	ties := false
	for i := 1; i < len(r1.keys); i++ {
		if r1.keys[i].hash == r1.keys[i-1].hash && r1.keys[i].key != r1.keys[i-1].key {
			ties = true
		}
	}
	if ties {
		o.Classes = append(o.Classes, "hash-tie-between-nodes"+sfx)
	}

	// Different sets => different signatures.
	type other struct {
		what string
		r    *Ring
	}
	others := []other{{"plus " + strconv.Quote(c.Add), rAdd}}
	if rRem != nil {
		others = append(others, other{"minus " + strconv.Quote(removed), rRem})
		// replace one node by another: same size, different membership
		others = append(others, other{"with " + strconv.Quote(removed) + " replaced by " + strconv.Quote(c.Add),
			c17RingBuild(append(append([]string(nil), without...), c.Add), c.Replicas, c.WeakMod)})
	}
	s1 := c17RingStream(r1)
	for _, ot := range others {
		if ot.r.Signature() != r1.Signature() {
			continue
		}
		if c17RingStream(ot.r) == s1 {
			o.Classes = append(o.Classes, "signature-input-collision")
			continue
		}
		o.Viol = kit.V("different-sets-same-signature"+sfx, "ring of %q and the ring %s (replicas %d) have the same signature %q although their replica lists differ",
			c.Names, ot.what, c.Replicas, r1.Signature())
		return o
	}
	return o
}

func TestC17Ring(t *testing.T) {
	kit.Check(t, "C17", "TestC17Ring", c17RingGen, c17RingExec)
}

// FuzzC17Ring: the same generator and oracle as TestC17Ring under Go's coverage-guided fuzzer (thorough tier).
func FuzzC17Ring(f *testing.F) { kit.FuzzOf(f, "C17", "TestC17Ring", c17RingGen, c17RingExec) }
