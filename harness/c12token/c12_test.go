package token

// C12 (token part) — a login token authenticates only if its signed fields and
// signature are bit-for-bit those of a token issued under the verifier's key and
// serial number and it has not expired; then it yields exactly the issued user,
// level and feature flags.
//
// Oracle: reference model written from the statement. The model knows, per issued
// token, the issued bytes, the issue time, the lifetime and the issued record; it
// never looks inside the token. "authenticates <=> the first N (issued length)
// bytes equal an issued token under the verifier's key and serial and not expired".
//
// Time: time.Now is virtual inside a testing/synctest bubble (starts 2000-01-01).

import (
	"bytes"
	"crypto/sha256"
	"encoding/json"
	"fmt"
	"sort"
	"testing"
	"testing/synctest"
	"time"

	"github.com/tinode/chat/server/auth"
	"github.com/tinode/chat/server/store/types"
	kit "github.com/tinode/chat/server/zzverifkit"
	"pgregory.net/rapid"
)

type c12TokIssue struct {
	Uid        uint64 `json:"uid"`
	Level      int    `json:"level"`
	Features   uint16 `json:"features"`
	LifetimeMs int64  `json:"lifetime_ms"` // 0 = authenticator default
	LifetimeNs int64  `json:"lifetime_ns"` // sub-millisecond part added to the lifetime
	GapMs      int64  `json:"gap_ms"`      // virtual time slept before this issue
}

type c12TokMut struct {
	Pos []int  `json:"pos"` // byte positions (taken modulo the token length)
	Xor []byte `json:"xor"` // xor masks (0 is replaced by 1)
}

type c12TokProbe struct {
	Issue int   `json:"issue"`  // index into Issues (modulo)
	OffMs int64 `json:"off_ms"` // probe time relative to the model expiry of that issue
	OffNs int64 `json:"off_ns"`
}

type c12TokCase struct {
	Key       []byte        `json:"key"`
	Serial    int           `json:"serial"`
	ExpireIn  int           `json:"expire_in"` // seconds, authenticator default lifetime
	StartNs   int64         `json:"start_ns"`  // offset of the case from the bubble epoch
	Issues    []c12TokIssue `json:"issues"`
	AltKey    []byte        `json:"alt_key"`
	AltSerial int           `json:"alt_serial"`
	Muts      []c12TokMut   `json:"muts"`
	Exts      [][]byte      `json:"exts"`
	Probes    []c12TokProbe `json:"probes"`
}

const c12Year = int64(365 * 24 * 3600 * 1000)

func c12TokGen(rt *rapid.T) c12TokCase {
	var c c12TokCase
	c.Key = rapid.SliceOfN(rapid.Byte(), 32, 80).Draw(rt, "key")
	c.Serial = rapid.IntRange(0, 65535).Draw(rt, "serial")
	c.ExpireIn = rapid.OneOf(rapid.IntRange(1, 3), rapid.IntRange(2, 60), rapid.IntRange(2, 1209600), rapid.IntRange(3600, 1209600)).Draw(rt, "expire_in")
	c.StartNs = rapid.Int64Range(0, 3_000_000_000).Draw(rt, "start_ns")
	levels := []int{0, 10, 20, 30}
	n := rapid.IntRange(1, 3).Draw(rt, "n_issues")
	for i := 0; i < n; i++ {
		var is c12TokIssue
		is.Uid = rapid.Uint64().Draw(rt, "uid")
		if rapid.IntRange(0, 4).Draw(rt, "lvl_kind") == 0 {
			is.Level = rapid.IntRange(0, 30).Draw(rt, "lvl")
		} else {
			is.Level = rapid.SampledFrom(levels).Draw(rt, "lvl")
		}
		is.Features = rapid.OneOf(rapid.Uint16Range(0, 3), rapid.Uint16()).Draw(rt, "feat")
		switch rapid.IntRange(0, 7).Draw(rt, "lt_kind") {
		case 0, 1:
			is.LifetimeMs = 0 // default
		case 2:
			is.LifetimeMs = rapid.Int64Range(1, 5000).Draw(rt, "lt_ms")
		case 3:
			is.LifetimeMs = 2000 + rapid.Int64Range(0, 10000).Draw(rt, "lt_ms")
		case 4:
			is.LifetimeMs = 2000 + rapid.Int64Range(1, 3*c12Year/365).Draw(rt, "lt_ms")
		case 5:
			is.LifetimeMs = 2000 + rapid.Int64Range(1, 50*c12Year).Draw(rt, "lt_ms")
		default:
			is.LifetimeMs = 1000 * rapid.Int64Range(2, 1209600).Draw(rt, "lt_s")
		}
		if is.LifetimeMs != 0 && rapid.IntRange(0, 2).Draw(rt, "lt_frac") == 0 {
			is.LifetimeNs = rapid.Int64Range(0, 999_999).Draw(rt, "lt_ns")
		}
		if i > 0 {
			is.GapMs = rapid.Int64Range(0, 4000).Draw(rt, "gap")
		}
		c.Issues = append(c.Issues, is)
	}
	// A foreign key: either a small mutation of the key or an unrelated one.
	switch rapid.IntRange(0, 3).Draw(rt, "altkey_kind") {
	case 0:
		c.AltKey = rapid.SliceOfN(rapid.Byte(), 32, 80).Draw(rt, "altkey")
	case 1: // one bit differs
		c.AltKey = append([]byte(nil), c.Key...)
		p := rapid.IntRange(0, len(c.Key)-1).Draw(rt, "altkey_pos")
		c.AltKey[p] ^= 1 << rapid.IntRange(0, 7).Draw(rt, "altkey_bit")
	case 2: // one more non-zero byte
		c.AltKey = append(append([]byte(nil), c.Key...), byte(rapid.IntRange(1, 255).Draw(rt, "altkey_extra")))
	default: // rotated
		c.AltKey = append(append([]byte(nil), c.Key[1:]...), c.Key[0])
	}
	switch rapid.IntRange(0, 2).Draw(rt, "altserial_kind") {
	case 0:
		c.AltSerial = rapid.IntRange(0, 65535).Draw(rt, "altserial")
	case 1:
		c.AltSerial = c.Serial ^ (1 << rapid.IntRange(0, 15).Draw(rt, "altserial_bit"))
	default:
		c.AltSerial = (c.Serial + 1) % 65536
	}
	nm := rapid.IntRange(1, 6).Draw(rt, "n_muts")
	for i := 0; i < nm; i++ {
		k := rapid.IntRange(1, 6).Draw(rt, "mut_n")
		var m c12TokMut
		for j := 0; j < k; j++ {
			m.Pos = append(m.Pos, rapid.IntRange(0, 63).Draw(rt, "mut_pos"))
			m.Xor = append(m.Xor, rapid.Byte().Draw(rt, "mut_xor"))
		}
		c.Muts = append(c.Muts, m)
	}
	ne := rapid.IntRange(1, 3).Draw(rt, "n_exts")
	for i := 0; i < ne; i++ {
		c.Exts = append(c.Exts, rapid.SliceOfN(rapid.Byte(), 1, 64).Draw(rt, "ext"))
	}
	offs := []int64{-5000, -2001, -2000, -1999, -1001, -1000, -999, -1, 0, 1, 2, 499, 500, 999, 1000, 1001, 1999, 2000, 2001, 3600_000, 20 * c12Year}
	np := rapid.IntRange(1, 6).Draw(rt, "n_probes")
	for i := 0; i < np; i++ {
		var p c12TokProbe
		p.Issue = rapid.IntRange(0, n-1).Draw(rt, "probe_issue")
		if rapid.IntRange(0, 2).Draw(rt, "probe_kind") == 0 {
			p.OffMs = rapid.Int64Range(-4000, 4000).Draw(rt, "probe_off")
			p.OffNs = rapid.Int64Range(0, 999_999).Draw(rt, "probe_ns")
		} else {
			p.OffMs = rapid.SampledFrom(offs).Draw(rt, "probe_off")
		}
		c.Probes = append(c.Probes, p)
	}
	return c
}

// c12HmacKeyNorm gives the 64-byte block HMAC-SHA256 really keys with (RFC 2104):
// two configured keys with the same block are the same HMAC key.
func c12HmacKeyNorm(k []byte) [64]byte {
	var out [64]byte
	if len(k) > 64 {
		h := sha256.Sum256(k)
		copy(out[:], h[:])
	} else {
		copy(out[:], k)
	}
	return out
}

func c12NewAuth(key []byte, serial, expireIn int) (*authenticator, error) {
	conf, _ := json.Marshal(map[string]any{"key": key, "serial_num": serial, "expire_in": expireIn})
	a := &authenticator{}
	if err := a.Init(conf, "token"); err != nil {
		return nil, err
	}
	return a, nil
}

type c12Issued struct {
	tok      []byte
	at       time.Time
	expModel time.Time // issue time + lifetime (exact, the model's validity end)
	rec      c12TokIssue
}

func c12TokExec(t *testing.T, c c12TokCase) (out kit.Outcome) {
	done := false
	synctest.Test(t, func(t *testing.T) {
		defer func() {
			if r := recover(); r != nil {
				out.Viol = kit.V("panic", "panic while handling a token: %v", r)
			}
			done = true
		}()
		out = c12TokRun(c)
	})
	if !done && out.Viol == nil {
		out.Skip = true
	}
	return out
}

func c12TokRun(c c12TokCase) (o kit.Outcome) {
	cls := map[string]bool{}
	defer func() {
		ks := make([]string, 0, len(cls))
		for k := range cls {
			ks = append(ks, k)
		}
		sort.Strings(ks)
		o.Classes = ks
	}()
	fail := func(sig, f string, a ...any) kit.Outcome {
		o.Viol = kit.V(sig, f, a...)
		return o
	}
	if len(c.Key) < 32 || len(c.Issues) == 0 || c.ExpireIn <= 0 {
		o.Skip = true
		return o
	}
	serial := ((c.Serial % 65536) + 65536) % 65536
	altSerial := ((c.AltSerial % 65536) + 65536) % 65536
	time.Sleep(time.Duration(c.StartNs))

	srv, err := c12NewAuth(c.Key, serial, c.ExpireIn)
	if err != nil {
		return fail("init-failed", "Init with a %d-byte key, serial %d, expire_in %d failed: %v", len(c.Key), serial, c.ExpireIn, err)
	}
	// "Restarted" server with the same configuration, foreign-key server, wrong-serial server.
	same, _ := c12NewAuth(append([]byte(nil), c.Key...), serial, c.ExpireIn)
	var verifiers []struct {
		name string
		a    *authenticator
	}
	altKey := c.AltKey
	if len(altKey) >= 32 {
		if c12HmacKeyNorm(altKey) == c12HmacKeyNorm(c.Key) {
			cls["altkey:hmac-equivalent(skipped)"] = true
		} else if a, err := c12NewAuth(altKey, serial, c.ExpireIn); err == nil {
			verifiers = append(verifiers, struct {
				name string
				a    *authenticator
			}{"foreign-key", a})
			if altSerial != serial {
				if a2, err := c12NewAuth(altKey, altSerial, c.ExpireIn); err == nil {
					verifiers = append(verifiers, struct {
						name string
						a    *authenticator
					}{"foreign-key+wrong-serial", a2})
				}
			}
		}
	}
	if altSerial != serial {
		if a, err := c12NewAuth(c.Key, altSerial, c.ExpireIn); err == nil {
			verifiers = append(verifiers, struct {
				name string
				a    *authenticator
			}{"wrong-serial", a})
		}
	}

	// Observation only (no verdict): the serial number is configured as an int but signed
	// as 16 bits; a verifier whose serial differs by a multiple of 65536 is outside the
	// generated configurations (see assumptions) and is merely recorded.
	wide, _ := c12NewAuth(c.Key, serial+65536, c.ExpireIn)

	// matches tells whether Authenticate's answer is exactly the issued record and
	// whether the remaining lifetime it reports stays within the issued validity.
	matches := func(is *c12Issued, rec *auth.Rec) (sig, why string) {
		if rec == nil {
			return "identity-wrong-record", "nil record without error"
		}
		if uint64(rec.Uid) != is.rec.Uid || int(rec.AuthLevel) != is.rec.Level || uint16(rec.Features) != is.rec.Features {
			return "identity-wrong-record", fmt.Sprintf("got uid=%d level=%d features=%d, issued uid=%d level=%d features=%d",
				uint64(rec.Uid), int(rec.AuthLevel), uint16(rec.Features), is.rec.Uid, is.rec.Level, is.rec.Features)
		}
		now := time.Now()
		if now.Add(time.Duration(rec.Lifetime)).After(is.expModel.Add(time.Millisecond)) {
			return "reported-lifetime:outlives-issue", fmt.Sprintf("reported remaining lifetime %v but the issued validity ends in %v", time.Duration(rec.Lifetime), is.expModel.Sub(now))
		}
		if rec.Lifetime <= 0 {
			// 0 means "use the default lifetime" when the record is used to issue the next token
			return "reported-lifetime:not-positive", fmt.Sprintf("authenticated with remaining lifetime %v (validity ends in %v)", time.Duration(rec.Lifetime), is.expModel.Sub(now))
		}
		return "", ""
	}

	var issued []*c12Issued
	accepted, refused := 0, 0
	for i := range c.Issues {
		spec := c.Issues[i]
		if spec.GapMs > 0 {
			time.Sleep(time.Duration(spec.GapMs) * time.Millisecond)
		}
		lt := time.Duration(spec.LifetimeMs)*time.Millisecond + time.Duration(spec.LifetimeNs)
		if lt < 0 {
			o.Skip = true
			return o
		}
		now := time.Now()
		rec := &auth.Rec{Uid: types.Uid(spec.Uid), AuthLevel: auth.Level(spec.Level), Features: auth.Feature(spec.Features), Lifetime: auth.Duration(lt)}
		tok, exp, err := srv.GenSecret(rec)
		if err != nil {
			return fail("issue-failed", "GenSecret(uid=%d level=%d features=%d lifetime=%v) failed: %v", spec.Uid, spec.Level, spec.Features, lt, err)
		}
		if lt == 0 {
			lt = time.Duration(c.ExpireIn) * time.Second
			cls["issue:default-lifetime"] = true
		}
		is := &c12Issued{tok: append([]byte(nil), tok...), at: now, expModel: now.Add(lt), rec: spec}
		issued = append(issued, is)
		if d := exp.Sub(is.expModel); d > time.Millisecond || d < -time.Millisecond {
			return fail("issue-expiry-mismatch", "GenSecret at %v with lifetime %v reported expiry %v, want %v", now.UTC(), lt, exp, is.expModel.UTC())
		}
		if len(tok) != 50 {
			cls["issue:length-not-50"] = true
		}

		// --- identity at issue time
		short := lt < 2*time.Second
		if short {
			cls["issue:lifetime<2s"] = true
		} else {
			cls["issue:lifetime>=2s"] = true
		}
		for _, v := range []struct {
			name string
			a    *authenticator
		}{{"issuer", srv}, {"same-config", same}} {
			got, chal, err := v.a.Authenticate(append([]byte(nil), tok...), "")
			if err == nil {
				if chal != nil {
					return fail("identity-challenge", "%s: a valid token produced a challenge", v.name)
				}
				if sig, why := matches(is, got); why != "" {
					return fail(sig, "%s: freshly issued token: %s", v.name, why)
				}
				accepted++
			} else if !short {
				return fail("identity-refused", "%s: token issued for uid=%d level=%d features=%d lifetime=%v refused right after the issue: %v",
					v.name, spec.Uid, spec.Level, spec.Features, lt, err)
			}
		}
		if short {
			// All derived checks below are still demanded: mutants must be refused whatever the remaining lifetime.
			cls["derived-on-short-lived"] = true
		}

		mustRefuse := func(kind string, b []byte, detail string) *kit.Viol {
			for _, v := range []struct {
				name string
				a    *authenticator
			}{{"issuer", srv}} {
				got, _, err := v.a.Authenticate(b, "")
				if err == nil {
					return kit.V("accepted:"+kind, "%s accepted a %s token (%s): issued %x, presented %x, result uid=%d level=%d features=%d",
						v.name, kind, detail, is.tok, b, uint64(got.Uid), int(got.AuthLevel), uint16(got.Features))
				}
				refused++
			}
			return nil
		}

		// --- every single-bit flip
		for bit := 0; bit < 8*len(tok); bit++ {
			b := append([]byte(nil), tok...)
			b[bit/8] ^= 1 << (bit % 8)
			if v := mustRefuse("bit-flip", b, fmt.Sprintf("byte %d bit %d", bit/8, bit%8)); v != nil {
				o.Viol = v
				return o
			}
		}
		cls["flips:exhaustive"] = true
		// --- generated multi-bit / multi-byte mutations inside the issued bytes
		for _, m := range c.Muts {
			b := append([]byte(nil), tok...)
			for j, p := range m.Pos {
				x := byte(1)
				if j < len(m.Xor) && m.Xor[j] != 0 {
					x = m.Xor[j]
				}
				if p < 0 {
					p = -p
				}
				b[p%len(b)] ^= x
			}
			if bytes.Equal(b, tok) {
				cls["mut:cancelled-out"] = true
				continue
			}
			if v := mustRefuse("multi-mutation", b, fmt.Sprintf("positions %v masks %x", m.Pos, m.Xor)); v != nil {
				o.Viol = v
				return o
			}
			cls["mut:multi"] = true
		}
		// --- every truncation
		for n := 0; n < len(tok); n++ {
			if v := mustRefuse("truncated", append([]byte(nil), tok[:n]...), fmt.Sprintf("first %d of %d bytes", n, len(tok))); v != nil {
				o.Viol = v
				return o
			}
		}
		if v := mustRefuse("truncated", nil, "nil slice"); v != nil {
			o.Viol = v
			return o
		}
		// --- extensions: exactly the issued record, or refused
		for _, e := range c.Exts {
			b := append(append([]byte(nil), tok...), e...)
			got, _, err := srv.Authenticate(b, "")
			if err != nil {
				cls["ext:refused"] = true
				refused++
				continue
			}
			if sig, why := matches(is, got); why != "" {
				return fail("extension:"+sig, "token extended by %x: %s", e, why)
			}
			cls["ext:accepted-as-issued"] = true
			// an extended token whose first bytes were altered is an altered token
			b[int(e[0])%len(tok)] ^= 0x80
			if v := mustRefuse("extended+altered", b, fmt.Sprintf("extension %x, byte %d flipped", e, int(e[0])%len(tok))); v != nil {
				o.Viol = v
				return o
			}
		}
		// --- foreign key / wrong serial
		for _, v := range verifiers {
			got, _, err := v.a.Authenticate(append([]byte(nil), tok...), "")
			if err == nil {
				return fail("accepted:"+v.name, "a verifier configured with a %s (key %x serial %d) accepted a token issued under key %x serial %d: uid=%d",
					v.name, v.a.hmacSalt, v.a.serialNumber, c.Key, serial, uint64(got.Uid))
			}
			refused++
			cls["verifier:"+v.name+":refused"] = true
		}
		if wide != nil {
			_, _, err := wide.Authenticate(append([]byte(nil), tok...), "")
			cls[fmt.Sprintf("observed:verifier-serial+65536:accepted=%v", err == nil)] = true
			if wt, _, err := wide.GenSecret(&auth.Rec{Uid: types.Uid(spec.Uid), AuthLevel: auth.Level(spec.Level), Features: auth.Feature(spec.Features), Lifetime: auth.Duration(time.Hour)}); err == nil {
				_, _, err = wide.Authenticate(wt, "")
				cls[fmt.Sprintf("observed:serial>65535-issuer-accepts-own-token=%v", err == nil)] = true
			}
		}
		// --- a token of another issue of this case is a different secret: replaying
		// the signature of one over the fields of another must fail
		if i > 0 && len(issued[0].tok) == len(tok) && len(tok) > 32 && !bytes.Equal(issued[0].tok[:len(tok)-32], tok[:len(tok)-32]) {
			b := append(append([]byte(nil), tok[:len(tok)-32]...), issued[0].tok[len(tok)-32:]...)
			if v := mustRefuse("spliced-signature", b, "fields of this token + last 32 bytes of the first token"); v != nil {
				o.Viol = v
				return o
			}
			cls["splice"] = true
		}
	}

	// --- expiry probes, in time order
	type probe struct {
		at time.Time
		is *c12Issued
		p  c12TokProbe
	}
	var probes []probe
	for _, p := range c.Probes {
		idx := p.Issue % len(issued)
		if idx < 0 {
			idx = -idx
		}
		is := issued[idx]
		probes = append(probes, probe{at: is.expModel.Add(time.Duration(p.OffMs)*time.Millisecond + time.Duration(p.OffNs)), is: is, p: p})
	}
	sort.SliceStable(probes, func(i, j int) bool { return probes[i].at.Before(probes[j].at) })
	for _, pr := range probes {
		now := time.Now()
		if pr.at.Before(now) {
			cls["probe:in-the-past(skipped)"] = true
			continue
		}
		time.Sleep(pr.at.Sub(now))
		now = time.Now()
		left := pr.is.expModel.Sub(now)
		for _, v := range []struct {
			name string
			a    *authenticator
		}{{"issuer", srv}, {"same-config", same}} {
			got, _, err := v.a.Authenticate(append([]byte(nil), pr.is.tok...), "")
			switch {
			case left <= -time.Millisecond:
				// expired (1 ms slack for the documented millisecond rounding of the expiry)
				if err == nil {
					return fail("accepted:expired", "%s accepted a token %v after its validity ended (issued at %v for %v, now %v); reported remaining lifetime %v",
						v.name, -left, pr.is.at.UTC(), pr.is.expModel.Sub(pr.is.at), now.UTC(), time.Duration(got.Lifetime))
				}
				refused++
				cls["probe:expired:refused"] = true
			case left >= 2*time.Second:
				if err != nil {
					return fail("refused:valid", "%s refused a token with %v of validity left: %v", v.name, left, err)
				}
				if sig, why := matches(pr.is, got); why != "" {
					return fail(sig, "%s: token presented %v before the end of its validity: %s", v.name, left, why)
				}
				accepted++
				cls["probe:valid:accepted"] = true
			default:
				// last two seconds: the token format has one-second resolution and the
				// verifier keeps a one-second margin; the statement does not fix this window.
				if err == nil {
					if sig, why := matches(pr.is, got); why != "" {
						return fail(sig, "%s: token presented %v before the end of its validity: %s", v.name, left, why)
					}
					cls["probe:last-2s:accepted"] = true
				} else {
					cls["probe:last-2s:refused"] = true
				}
			}
		}
		// an altered token stays refused whatever the time
		b := append([]byte(nil), pr.is.tok...)
		b[len(b)-1] ^= 1
		if _, _, err := srv.Authenticate(b, ""); err == nil {
			return fail("accepted:bit-flip", "altered token accepted at probe time %v", now.UTC())
		}
	}
	o.NonTrivial = accepted > 0 && refused > 0
	return o
}

func TestC12Token(t *testing.T) {
	kit.Check(t, "C12", "TestC12Token", c12TokGen, func(c c12TokCase) kit.Outcome { return c12TokExec(t, c) })
}
