package token

// C12 (token part, concurrent logins) — the statement quantifies over every token
// presented to the server, whatever other logins are in flight: the server has ONE
// token authenticator and every session goroutine calls it. A forged token (signed
// fields of one token + signature of another, or altered signed fields under the
// original signature) must be refused and a genuine unexpired token must yield
// exactly its issued user, level and features while other goroutines verify and
// issue tokens on the same authenticator at the same moment.
//
// Oracle: the issued-token table of the sequential unit (the model never computes an
// HMAC): "accepted <=> the presented bytes are an issued token", judged per call in
// every goroutine. The case fixes the number of goroutines, the number of calls of
// each and the operation mix; the interleaving is whatever the Go scheduler produces
// (sampled). TestC12TokenConcurrentRace is the same unit built with -race: a report of
// the race detector kills the worker (GORACE=halt_on_error) and the driver recovers
// the case from the write-ahead log: "the authenticator's key state is not shared
// unsafely between logins".
//
// Time: real clock. Lifetimes are >= 1 hour, a case runs for milliseconds.

import (
	"bytes"
	"fmt"
	"runtime"
	"sort"
	"sync"
	"testing"
	"time"

	"github.com/tinode/chat/server/auth"
	"github.com/tinode/chat/server/store/types"
	kit "github.com/tinode/chat/server/zzverifkit"
	"pgregory.net/rapid"
)

type c12ConcUser struct {
	Uid       uint64 `json:"uid"`
	Level     int    `json:"level"`
	Features  uint16 `json:"features"`
	LifetimeS int64  `json:"lifetime_s"` // 0 = authenticator default
}

// Kinds of operation.
const (
	c12ConcGenuine = "genuine" // Authenticate(token of Users[Who])
	c12ConcSplice  = "splice"  // Authenticate(signed fields of Users[Who]'s token + signature of Users[Sig]'s token)
	c12ConcFlip    = "flip"    // Authenticate(token of Users[Sig] with one bit of the signed fields flipped)
	c12ConcFresh   = "fresh"   // GenSecret(Users[Who]) then Authenticate(the fresh token)
)

type c12ConcOp struct {
	Kind string `json:"kind"`
	Who  int    `json:"who"`
	Sig  int    `json:"sig"`
	Pos  int    `json:"pos"` // flip: bit position inside the signed fields (modulo)
}

type c12ConcWorker struct {
	Off   int `json:"off"`   // index of the first operation (modulo)
	Stick int `json:"stick"` // how many times in a row an operation is repeated before the next one
}

type c12ConcCase struct {
	Key      []byte          `json:"key"`
	Serial   int             `json:"serial"`
	ExpireIn int             `json:"expire_in"`
	Users    []c12ConcUser   `json:"users"`
	Ops      []c12ConcOp     `json:"ops"`
	Workers  []c12ConcWorker `json:"workers"` // one goroutine each
	Iters    int             `json:"iters"`   // calls per goroutine
}

const c12ConcSigLen = 32 // the last 32 bytes of a token are its signature (HMAC-SHA256)

func c12ConcGen(maxIters int) func(rt *rapid.T) c12ConcCase {
	return func(rt *rapid.T) c12ConcCase {
		var c c12ConcCase
		c.Key = rapid.SliceOfN(rapid.Byte(), 32, 80).Draw(rt, "key")
		c.Serial = rapid.IntRange(0, 65535).Draw(rt, "serial")
		c.ExpireIn = rapid.IntRange(3600, 1209600).Draw(rt, "expire_in")
		levels := []int{0, 10, 20, 30}
		nu := rapid.IntRange(2, 4).Draw(rt, "n_users")
		for i := 0; i < nu; i++ {
			var u c12ConcUser
			u.Uid = rapid.Uint64().Draw(rt, "uid")
			u.Level = rapid.SampledFrom(levels).Draw(rt, "lvl")
			u.Features = rapid.OneOf(rapid.Uint16Range(0, 3), rapid.Uint16()).Draw(rt, "feat")
			if rapid.IntRange(0, 2).Draw(rt, "lt_kind") != 0 {
				u.LifetimeS = rapid.Int64Range(3600, 1209600).Draw(rt, "lt")
			}
			c.Users = append(c.Users, u)
		}
		// the attacker's classic: own plain token, somebody else's id at root level
		if rapid.Bool().Draw(rt, "victim_root") {
			c.Users[1].Level = 30
		}
		kinds := []string{c12ConcGenuine, c12ConcGenuine, c12ConcSplice, c12ConcSplice, c12ConcFlip, c12ConcFresh}
		no := rapid.IntRange(0, 6).Draw(rt, "n_ops")
		for i := 0; i < no; i++ {
			op := c12ConcOp{Kind: rapid.SampledFrom(kinds).Draw(rt, "kind")}
			op.Who = rapid.IntRange(0, nu-1).Draw(rt, "who")
			op.Sig = rapid.IntRange(0, nu-1).Draw(rt, "sig")
			op.Pos = rapid.IntRange(0, 143).Draw(rt, "pos")
			c.Ops = append(c.Ops, op)
		}
		// Every case has the pair the statement is about: a genuine token being verified
		// and a forgery carrying that token's signature.
		a := rapid.IntRange(0, nu-1).Draw(rt, "pair_sig")
		b := (a + 1 + rapid.IntRange(0, nu-2).Draw(rt, "pair_fields")) % nu
		c.Ops = append(c.Ops, c12ConcOp{Kind: c12ConcGenuine, Who: a}, c12ConcOp{Kind: c12ConcSplice, Who: b, Sig: a})
		ng := rapid.IntRange(2, 8).Draw(rt, "goroutines")
		for g := 0; g < ng; g++ {
			c.Workers = append(c.Workers, c12ConcWorker{
				Off:   rapid.IntRange(0, len(c.Ops)-1).Draw(rt, "off"),
				Stick: rapid.SampledFrom([]int{1, 1, 2, 7, 64, 100000}).Draw(rt, "stick"),
			})
		}
		c.Iters = rapid.IntRange(maxIters/4, maxIters).Draw(rt, "iters")
		return c
	}
}

// c12ConcTally is what one goroutine saw; it is only read after the goroutine finished.
type c12ConcTally struct {
	genuineOK, forgedRefused, freshOK int
	viol                              map[string]string // signature -> first message
	violN                             map[string]int
	fresh                             [][]byte // some tokens issued by this goroutine
	freshWho                          []int
}

func (t *c12ConcTally) bad(sig, f string, a ...any) {
	if t.viol == nil {
		t.viol, t.violN = map[string]string{}, map[string]int{}
	}
	if _, ok := t.viol[sig]; !ok {
		t.viol[sig] = fmt.Sprintf(f, a...)
	}
	t.violN[sig]++
}

func c12ConcSame(u c12ConcUser, rec *auth.Rec, ceil time.Duration) string {
	if rec == nil {
		return "nil record without error"
	}
	if uint64(rec.Uid) != u.Uid || int(rec.AuthLevel) != u.Level || uint16(rec.Features) != u.Features {
		return fmt.Sprintf("got uid=%d level=%d features=%d, issued uid=%d level=%d features=%d",
			uint64(rec.Uid), int(rec.AuthLevel), uint16(rec.Features), u.Uid, u.Level, u.Features)
	}
	if time.Duration(rec.Lifetime) <= 0 || time.Duration(rec.Lifetime) > ceil+time.Second {
		return fmt.Sprintf("reported remaining lifetime %v, issued for %v", time.Duration(rec.Lifetime), ceil)
	}
	return ""
}

func c12ConcExec(c c12ConcCase) (o kit.Outcome) {
	nu := len(c.Users)
	if len(c.Key) < 32 || nu < 2 || len(c.Ops) == 0 || len(c.Workers) == 0 || c.Iters <= 0 || c.ExpireIn < 3600 {
		o.Skip = true
		return o
	}
	if runtime.GOMAXPROCS(0) < 4 {
		runtime.GOMAXPROCS(4)
	}
	mod := func(i, n int) int { return ((i % n) + n) % n }
	serial := mod(c.Serial, 65536)
	srv, err := c12NewAuth(c.Key, serial, c.ExpireIn)
	if err != nil {
		o.Viol = kit.V("init-failed", "Init failed: %v", err)
		return o
	}
	same, _ := c12NewAuth(append([]byte(nil), c.Key...), serial, c.ExpireIn)
	life := func(u c12ConcUser) time.Duration {
		if u.LifetimeS > 0 {
			return time.Duration(u.LifetimeS) * time.Second
		}
		return time.Duration(c.ExpireIn) * time.Second
	}
	newRec := func(u c12ConcUser) *auth.Rec {
		return &auth.Rec{Uid: types.Uid(u.Uid), AuthLevel: auth.Level(u.Level), Features: auth.Feature(u.Features),
			Lifetime: auth.Duration(time.Duration(u.LifetimeS) * time.Second)}
	}

	// --- sequential prologue: issue one token per user, nobody else is using the authenticator
	toks := make([][]byte, nu)
	for i, u := range c.Users {
		tok, _, err := srv.GenSecret(newRec(u))
		if err != nil || len(tok) <= c12ConcSigLen {
			o.Viol = kit.V("issue-failed", "GenSecret(uid=%d level=%d) failed: %v (%d bytes)", u.Uid, u.Level, err, len(tok))
			return o
		}
		toks[i] = tok
		rec, _, err := srv.Authenticate(append([]byte(nil), tok...), "")
		if err != nil {
			o.Viol = kit.V("identity-refused", "sequential: freshly issued token refused: %v", err)
			return o
		}
		if why := c12ConcSame(u, rec, life(u)); why != "" {
			o.Viol = kit.V("identity-wrong-record", "sequential: %s", why)
			return o
		}
	}
	// Materialise the presented byte strings of every operation. A forgery that happens to be
	// bit-for-bit an issued token (two users with identical fields) is a genuine token.
	type prepared struct {
		op      c12ConcOp
		tok     []byte
		forged  bool
		who     int // whose record a genuine token must yield
		comment string
	}
	cls := map[string]bool{}
	var prep []prepared
	for _, op := range c.Ops {
		p := prepared{op: op}
		who, sig := mod(op.Who, nu), mod(op.Sig, nu)
		switch op.Kind {
		case c12ConcGenuine:
			p.tok, p.who = toks[who], who
		case c12ConcSplice:
			tf, ts := toks[who], toks[sig]
			b := append(append([]byte(nil), tf[:len(tf)-c12ConcSigLen]...), ts[len(ts)-c12ConcSigLen:]...)
			p.tok, p.forged, p.who = b, true, who
			p.comment = fmt.Sprintf("signed fields of the token of uid=%d level=%d + signature of the token of uid=%d level=%d",
				c.Users[who].Uid, c.Users[who].Level, c.Users[sig].Uid, c.Users[sig].Level)
		case c12ConcFlip:
			b := append([]byte(nil), toks[sig]...)
			bit := mod(op.Pos, 8*(len(b)-c12ConcSigLen))
			b[bit/8] ^= 1 << (bit % 8)
			p.tok, p.forged, p.who = b, true, sig
			p.comment = fmt.Sprintf("token of uid=%d level=%d with bit %d of byte %d flipped, original signature", c.Users[sig].Uid, c.Users[sig].Level, bit%8, bit/8)
		case c12ConcFresh:
			p.who = who
		default:
			continue
		}
		if p.forged {
			for i := range toks {
				if bytes.Equal(p.tok, toks[i]) {
					p.forged, p.who = false, i
					cls["forgery-equals-issued-token"] = true
				}
			}
		}
		if p.forged {
			// sequentially a forgery is refused (otherwise the sequential unit's business, but judge it here too)
			if rec, _, err := srv.Authenticate(append([]byte(nil), p.tok...), ""); err == nil {
				o.Viol = kit.V("accepted:forged-sequential", "forged token accepted without any concurrency (%s): uid=%d level=%d", p.comment, uint64(rec.Uid), int(rec.AuthLevel))
				return o
			}
		}
		cls["op:"+op.Kind] = true
		prep = append(prep, p)
	}
	if len(prep) == 0 {
		o.Skip = true
		return o
	}

	// --- the concurrent part
	ng := len(c.Workers)
	tallies := make([]c12ConcTally, ng)
	start := make(chan struct{})
	var wg sync.WaitGroup
	for g := 0; g < ng; g++ {
		wg.Add(1)
		go func(g int) {
			defer wg.Done()
			w := c.Workers[g]
			t := &tallies[g]
			stick := w.Stick
			if stick < 1 {
				stick = 1
			}
			// private copies: the harness shares nothing mutable between goroutines
			mine := make([]prepared, len(prep))
			for i, p := range prep {
				mine[i] = p
				mine[i].tok = append([]byte(nil), p.tok...)
			}
			call := func(p *prepared) {
				defer func() {
					if r := recover(); r != nil {
						t.bad("panic", "goroutine %d: panic inside the authenticator during %q: %v", g, p.op.Kind, r)
					}
				}()
				switch {
				case p.op.Kind == c12ConcFresh:
					u := c.Users[p.who]
					tok, _, err := srv.GenSecret(newRec(u))
					if err != nil {
						t.bad("issue-failed", "goroutine %d: GenSecret(uid=%d level=%d) failed: %v", g, u.Uid, u.Level, err)
						return
					}
					keep := append([]byte(nil), tok...)
					rec, chal, err := srv.Authenticate(tok, "")
					if err != nil {
						t.bad("refused:fresh", "goroutine %d: token %x issued a moment ago for uid=%d level=%d features=%d refused: %v", g, keep, u.Uid, u.Level, u.Features, err)
					} else if why := c12ConcSame(u, rec, life(u)); why != "" || chal != nil {
						t.bad("identity-wrong-record:fresh", "goroutine %d: fresh token %x: %s", g, keep, why)
					} else {
						t.freshOK++
					}
					if len(t.fresh) < 8 {
						t.fresh, t.freshWho = append(t.fresh, keep), append(t.freshWho, p.who)
					}
				case p.forged:
					rec, _, err := srv.Authenticate(p.tok, "")
					if err == nil {
						t.bad("accepted:forged-concurrent", "goroutine %d: forged token accepted while other logins were in flight (%s): presented %x, authenticated as uid=%d level=%d features=%d",
							g, p.comment, p.tok, uint64(rec.Uid), int(rec.AuthLevel), uint16(rec.Features))
					} else {
						t.forgedRefused++
					}
				default:
					u := c.Users[p.who]
					rec, chal, err := srv.Authenticate(p.tok, "")
					if err != nil {
						t.bad("refused:valid-concurrent", "goroutine %d: genuine token %x of uid=%d level=%d (valid for %v) refused while other logins were in flight: %v", g, p.tok, u.Uid, u.Level, life(u), err)
					} else if why := c12ConcSame(u, rec, life(u)); why != "" || chal != nil {
						t.bad("identity-wrong-record:concurrent", "goroutine %d: genuine token %x: %s", g, p.tok, why)
					} else {
						t.genuineOK++
					}
				}
			}
			<-start
			for i := 0; i < c.Iters; i++ {
				call(&mine[mod(w.Off+i/stick, len(mine))])
			}
		}(g)
	}
	close(start)
	wg.Wait()

	// --- epilogue, sequential again
	genuineOK, forgedRefused, freshOK := 0, 0, 0
	viol, violN := map[string]string{}, map[string]int{}
	for g := range tallies {
		t := &tallies[g]
		genuineOK, forgedRefused, freshOK = genuineOK+t.genuineOK, forgedRefused+t.forgedRefused, freshOK+t.freshOK
		for s, m := range t.viol {
			if _, ok := viol[s]; !ok {
				viol[s] = m
			}
			violN[s] += t.violN[s]
		}
		// a token issued under load is a token of this server: the issuer and a server restarted
		// with the same configuration accept it
		for i, tok := range t.fresh {
			u := c.Users[t.freshWho[i]]
			for _, v := range []struct {
				name string
				a    *authenticator
			}{{"issuer", srv}, {"same-config", same}} {
				rec, _, err := v.a.Authenticate(append([]byte(nil), tok...), "")
				if err != nil {
					if _, ok := viol["refused:issued-under-load"]; !ok {
						viol["refused:issued-under-load"] = fmt.Sprintf("%s refuses token %x issued for uid=%d level=%d while other logins were in flight: %v", v.name, tok, u.Uid, u.Level, err)
					}
					violN["refused:issued-under-load"]++
				} else if why := c12ConcSame(u, rec, life(u)); why != "" {
					if _, ok := viol["identity-wrong-record:issued-under-load"]; !ok {
						viol["identity-wrong-record:issued-under-load"] = fmt.Sprintf("%s: token %x issued under load: %s", v.name, tok, why)
					}
					violN["identity-wrong-record:issued-under-load"]++
				}
			}
		}
	}
	// the tokens of the prologue are still what they were
	for i, u := range c.Users {
		rec, _, err := srv.Authenticate(append([]byte(nil), toks[i]...), "")
		if err != nil {
			viol["refused:valid-after-load"] = fmt.Sprintf("genuine token of uid=%d refused after the concurrent phase: %v", u.Uid, err)
			violN["refused:valid-after-load"]++
		} else if why := c12ConcSame(u, rec, life(u)); why != "" {
			viol["identity-wrong-record:after-load"] = why
			violN["identity-wrong-record:after-load"]++
		}
	}
	cls[fmt.Sprintf("goroutines:%d", ng)] = true
	if freshOK > 0 {
		cls["fresh:verified"] = true
	}
	for k := range cls {
		o.Classes = append(o.Classes, k)
	}
	sort.Strings(o.Classes)
	o.NonTrivial = ng >= 2 && genuineOK > 0 && forgedRefused > 0
	if len(viol) > 0 {
		// most telling first
		order := []string{"accepted:forged-concurrent", "identity-wrong-record:concurrent", "identity-wrong-record:fresh", "identity-wrong-record:issued-under-load",
			"identity-wrong-record:after-load", "refused:valid-concurrent", "refused:fresh", "refused:issued-under-load", "refused:valid-after-load", "issue-failed", "panic"}
		var all []string
		for s := range viol {
			all = append(all, fmt.Sprintf("%s x%d", s, violN[s]))
		}
		sort.Strings(all)
		for _, s := range order {
			if m, ok := viol[s]; ok {
				o.Viol = kit.V(s, "%s [%d goroutines x %d calls; all failures of this case: %v]", m, ng, c.Iters, all)
				break
			}
		}
	}
	return o
}

func c12ConcTest(t *testing.T, unit string, maxIters int) {
	r := kit.Begin("C12", unit)
	defer r.Flush()
	kit.CheckRun(t, r, c12ConcGen(maxIters), func(c c12ConcCase) kit.Outcome {
		r.WAL(c) // a worker killed by the race detector (or by a fatal error) is recovered from this file
		return c12ConcExec(c)
	})
}

// TestC12TokenConcurrent: normal build, the oracle judges every answer.
func TestC12TokenConcurrent(t *testing.T) { c12ConcTest(t, "TestC12TokenConcurrent", 2000) }

// TestC12TokenConcurrentRace: registered with race=True, crash_is_violation=True (fewer calls per
// goroutine: the race detector needs one unsynchronised pair of accesses, not a lucky interleaving).
func TestC12TokenConcurrentRace(t *testing.T) { c12ConcTest(t, "TestC12TokenConcurrentRace", 400) }
