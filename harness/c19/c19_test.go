package main

// C19 (pure part) — search query parser, tag rewriting, tag normalisation, restricted-tag helpers.
//
// The reference parser below is written from docs/API.md ("Query Language", "Query Rewrite",
// "fnd and Tags") and the C19 statement, not from utils.go:
//   * a query is a sequence of terms separated by runs of space / tab / comma;
//   * a run without comma is AND, with exactly one comma is OR, with two or more commas is an error;
//   * a term next to an OR separator is optional ("OR tag"), every other term is required;
//   * a double-quoted string is one literal term; an unterminated quote, or a quote glued to a word
//     on either side (ab"cd", "ab"cd) is an error;
//   * every term is lower-cased; an un-prefixed term that looks like an e-mail / phone number
//     (validators configured with add_to_tags) or, for fnd.public queries, like a login (basic
//     authenticator with add_to_tags) is rewritten to the prefixed form, the original being kept as
//     an alternative.
// "Looks like an e-mail / phone number" is delegated to the validators' own PreCheck (they are
// dependencies of rewriteTag, not the subject); "looks like a login" is re-implemented from the
// comment in auth/basic. Only the output *representation* was taken from utils.go: required terms are
// a list of alternative-lists [original, rewritten], optional terms are a flat list.
//
// Whatever the documents leave open is classified "unspecified:<why>" and not judged.

import (
	"fmt"
	"io"
	"reflect"
	"sort"
	"strings"
	"testing"
	"unicode"
	"unicode/utf8"
	"unsafe"

	"github.com/tinode/chat/server/logs"
	"github.com/tinode/chat/server/store"
	kit "github.com/tinode/chat/server/zzverifkit"
	"pgregory.net/rapid"
)

// The real store object (session tests replace store.Store by mocks and leave nil behind).
var c19Store = store.Store

type c19Cfg struct {
	Email     int    `json:"email"` // 0 validator not configured, 1 configured without add_to_tags, 2 with add_to_tags
	Tel       int    `json:"tel"`
	Login     bool   `json:"login"`      // basic authenticator add_to_tags
	WithLogin bool   `json:"with_login"` // true for fnd.public queries
	Country   string `json:"country"`
}

type c19QCase struct {
	Q   string `json:"q"`
	Cfg c19Cfg `json:"cfg"`
}

func c19SetUnexported(v reflect.Value, name string, val any) {
	f := v.FieldByName(name)
	if !f.IsValid() {
		panic("c19: auth/basic authenticator has no field " + name)
	}
	reflect.NewAt(f.Type(), unsafe.Pointer(f.UnsafeAddr())).Elem().Set(reflect.ValueOf(val))
}

// c19Setup puts every global read by rewriteTag into the state described by cfg.
var c19LogsOff bool

func c19Setup(cfg c19Cfg) {
	if !c19LogsOff {
		logs.Init(io.Discard, "stdFlags")
		c19LogsOff = true
	}
	store.Store = c19Store
	globals.validators = map[string]credValidator{}
	if cfg.Email > 0 {
		globals.validators["email"] = credValidator{addToTags: cfg.Email == 2}
	}
	if cfg.Tel > 0 {
		globals.validators["tel"] = credValidator{addToTags: cfg.Tel == 2}
	}
	h := c19Store.GetAuthHandler("basic")
	v := reflect.ValueOf(h).Elem()
	c19SetUnexported(v, "name", "basic")
	c19SetUnexported(v, "addToTags", cfg.Login)
	c19SetUnexported(v, "minLoginLength", 2)
}

func c19Reset() {
	globals.validators = nil
	globals.maxTagCount = 0
	globals.immutableTagNS = nil
	globals.maskedTagNS = nil
	c19SetUnexported(reflect.ValueOf(c19Store.GetAuthHandler("basic")).Elem(), "addToTags", false)
}

// ---------------------------------------------------------------- reference: tags

func c19BodyRune(r rune) bool {
	return unicode.IsLetter(r) || unicode.IsNumber(r) || strings.ContainsRune("-_+.!?#@", r)
}

func c19Body(s string) bool {
	n := 0
	for _, r := range s {
		if !c19BodyRune(r) {
			return false
		}
		n++
	}
	return n >= 1 && n <= 96
}

// c19TagKind: "plain" | "prefixed" | "odd-prefix" (accepted by the code's wider \w prefix pattern,
// not by the documented one) | "invalid".
func c19TagKind(s string) (kind, ns string) {
	i := strings.IndexByte(s, ':')
	if i < 0 {
		if c19Body(s) {
			return "plain", ""
		}
		return "invalid", ""
	}
	pfx, body := s[:i], s[i+1:]
	if !c19Body(body) || len(pfx) < 2 || len(pfx) > 16 || pfx[0] < 'a' || pfx[0] > 'z' {
		return "invalid", ""
	}
	odd := false
	for j := 1; j < len(pfx); j++ {
		c := pfx[j]
		switch {
		case c >= 'a' && c <= 'z', c >= '0' && c <= '9':
		case c == '_', c >= 'A' && c <= 'Z':
			odd = true
		default:
			return "invalid", ""
		}
	}
	if odd {
		return "odd-prefix", pfx
	}
	return "prefixed", pfx
}

func c19LoginLike(s string) bool {
	rs := []rune(s)
	if len(rs) < 2 || len(rs) > 32 {
		return false
	}
	ln := func(r rune) bool { return unicode.IsLetter(r) || unicode.IsNumber(r) }
	if !ln(rs[0]) || !ln(rs[len(rs)-1]) {
		return false
	}
	for _, r := range rs {
		if !ln(r) && r != '.' && r != '_' {
			return false
		}
	}
	return true
}

// c19Rewrites returns the acceptable prefixed forms of an un-prefixed, lower-cased term.
func c19Rewrites(orig string, cfg c19Cfg) []string {
	var out []string
	param := map[string]any{"countryCode": cfg.Country}
	for _, name := range []string{"email", "tel"} {
		on := cfg.Email == 2
		if name == "tel" {
			on = cfg.Tel == 2
		}
		if !on {
			continue
		}
		if name == "tel" {
			// a mobile number in national format of the session's country: its international form is
			// known without asking the validator
			if e164, ok := c19TelNational(orig, cfg.Country); ok {
				out = append(out, "tel:"+e164)
				continue
			}
		}
		if tag, _ := c19Store.GetValidator(name).PreCheck(orig, param); tag != "" && tag != orig {
			out = append(out, tag)
		}
	}
	// "all *other* unprefixed terms which look like logins are rewritten as logins"
	if len(out) == 0 && cfg.WithLogin && cfg.Login && c19LoginLike(orig) {
		out = append(out, "basic:"+orig)
	}
	return out
}

// c19TelNational: national-format mobile numbers built from prefixes which are mobile ranges in
// their numbering plans (GB 07911 xxxxxx, RU 8 916 xxx xx xx, DE 01512 xxxxxxx, US 415 555 26xx); the
// E.164 form follows from the plan: drop the trunk prefix, put the country's calling code in front.
func c19TelNational(orig, country string) (string, bool) {
	digits := func(s string) bool {
		for _, r := range s {
			if r < '0' || r > '9' {
				return false
			}
		}
		return true
	}
	if !digits(orig) {
		return "", false
	}
	switch {
	case country == "GB" && len(orig) == 11 && strings.HasPrefix(orig, "0791112"):
		return "+44" + orig[1:], true
	case country == "RU" && len(orig) == 11 && strings.HasPrefix(orig, "8916123"):
		return "+7" + orig[1:], true
	case country == "DE" && len(orig) == 12 && strings.HasPrefix(orig, "0151234"):
		return "+49" + orig[1:], true
	case country == "US" && len(orig) == 10 && strings.HasPrefix(orig, "41555526"):
		return "+1" + orig, true
	}
	return "", false
}

func c19GenNational(rt *rapid.T) string {
	d := func(n int) string {
		return rapid.StringOfN(rapid.RuneFrom([]rune("0123456789")), n, n, n).Draw(rt, "digits")
	}
	switch rapid.IntRange(0, 3).Draw(rt, "plan") {
	case 0:
		return "0791112" + d(4)
	case 1:
		return "8916123" + d(4)
	case 2:
		return "0151234" + d(5)
	}
	return "41555526" + d(2)
}

// ---------------------------------------------------------------- reference: query parser

type c19Term struct {
	Text     string
	Quoted   bool
	Optional bool
}

type c19Ref struct {
	Terms  []c19Term
	Err    string // non-empty: must be rejected (first reason)
	Unspec string // non-empty: meaning not fixed by docs/statement (first reason)
	Commas bool
	Quotes bool
}

func c19IsSep(r rune) bool { return r == ' ' || r == '\t' || r == ',' }

func c19RefParse(q string) c19Ref {
	var ref c19Ref
	type tok struct {
		term   bool
		text   string
		quoted bool
		commas int
	}
	var toks []tok
	setErr := func(e string) {
		if ref.Err == "" {
			ref.Err = e
		}
	}
	setUnspec := func(e string) {
		if ref.Unspec == "" {
			ref.Unspec = e
		}
	}
	rs := []rune(q)
	for i := 0; i < len(rs); {
		r := rs[i]
		switch {
		case c19IsSep(r):
			n := 0
			for i < len(rs) && c19IsSep(rs[i]) {
				if rs[i] == ',' {
					n++
				}
				i++
			}
			toks = append(toks, tok{commas: n})
		case r == '"':
			ref.Quotes = true
			j := i + 1
			for j < len(rs) && rs[j] != '"' {
				j++
			}
			if len(toks) > 0 && toks[len(toks)-1].term {
				if toks[len(toks)-1].quoted {
					setUnspec("quote-after-quote")
				} else {
					setErr("quote-glued-before") // ab"cd"
				}
			}
			if j >= len(rs) {
				setErr("unterminated-quote")
				toks = append(toks, tok{term: true, quoted: true, text: string(rs[i+1:])})
				i = len(rs)
				break
			}
			if j == i+1 {
				setUnspec("empty-quotes")
			}
			toks = append(toks, tok{term: true, quoted: true, text: string(rs[i+1 : j])})
			i = j + 1
		default:
			j := i
			for j < len(rs) && !c19IsSep(rs[j]) && rs[j] != '"' {
				j++
			}
			if len(toks) > 0 && toks[len(toks)-1].term {
				setErr("quote-glued-after") // "ab"cd
			}
			toks = append(toks, tok{term: true, text: string(rs[i:j])})
			i = j
		}
	}
	// leading / trailing separators: whitespace is insignificant, a comma there is not described
	if len(toks) > 0 && !toks[0].term {
		if toks[0].commas > 0 {
			setUnspec("leading-comma")
		}
		toks = toks[1:]
	}
	if len(toks) > 0 && !toks[len(toks)-1].term {
		if toks[len(toks)-1].commas > 0 {
			setUnspec("trailing-comma")
		}
		toks = toks[:len(toks)-1]
	}
	for k, t := range toks {
		if !t.term {
			if t.commas > 0 {
				ref.Commas = true
			}
			if t.commas >= 2 {
				setErr("double-comma")
			}
			continue
		}
		opt := false
		if k > 0 && !toks[k-1].term && toks[k-1].commas == 1 {
			opt = true
		}
		if k+1 < len(toks) && !toks[k+1].term && toks[k+1].commas == 1 {
			opt = true
		}
		ref.Terms = append(ref.Terms, c19Term{Text: t.text, Quoted: t.quoted, Optional: opt})
	}
	return ref
}

// c19Accept lists the alternative-lists acceptable for one term (each list sorted).
func c19Accept(t c19Term, cfg c19Cfg) (alts [][]string, rewritable string, unspec string) {
	low := strings.ToLower(t.Text)
	if utf8.RuneCountInString(low) < minTagLength {
		return nil, "", "short-term"
	}
	kind, _ := c19TagKind(low)
	switch kind {
	case "invalid":
		return nil, "", "term-not-a-valid-tag"
	case "odd-prefix":
		return nil, "", "term-with-undocumented-prefix-form"
	}
	alts = [][]string{{low}}
	var rw []string
	if kind == "plain" {
		rw = c19Rewrites(low, cfg)
	}
	if len(rw) > 0 {
		alts = nil
		for _, r := range rw {
			alts = append(alts, c19Sorted(low, r))
			if !cfg.WithLogin {
				// docs: "in queries to fnd.private only the rewritten term is kept"; the code keeps both.
				alts = append(alts, []string{r})
			}
		}
		if t.Quoted {
			// whether a quoted (literal) term is rewritten is not stated
			alts = append(alts, []string{low})
		}
	}
	if t.Quoted && t.Text != low {
		alts = append(alts, []string{t.Text})
	}
	if len(rw) > 0 {
		rewritable = rw[0][:strings.IndexByte(rw[0], ':')]
	}
	return alts, rewritable, ""
}

func c19Sorted(a ...string) []string {
	sort.Strings(a)
	return a
}

func c19Key(a []string) string {
	b := append([]string(nil), a...)
	sort.Strings(b)
	return strings.Join(b, "\x00")
}

// c19MatchReq finds a one-to-one assignment of observed alternative-lists to expected terms.
func c19MatchReq(exp [][][]string, got [][]string) bool {
	if len(exp) != len(got) {
		return false
	}
	used := make([]bool, len(got))
	var rec func(i int) bool
	rec = func(i int) bool {
		if i == len(exp) {
			return true
		}
		for j := range got {
			if used[j] {
				continue
			}
			ok := false
			for _, a := range exp[i] {
				if c19Key(a) == c19Key(got[j]) {
					ok = true
					break
				}
			}
			if ok {
				used[j] = true
				if rec(i + 1) {
					return true
				}
				used[j] = false
			}
		}
		return false
	}
	return rec(0)
}

// c19MatchOpt: the observed flat multiset must be the union of one acceptable list per expected term.
func c19MatchOpt(exp [][][]string, got []string) bool {
	cnt := map[string]int{}
	for _, g := range got {
		cnt[g]++
	}
	left := len(got)
	var rec func(i int) bool
	rec = func(i int) bool {
		if i == len(exp) {
			return left == 0
		}
		for _, a := range exp[i] {
			ok := true
			taken := 0
			for _, s := range a {
				if cnt[s] == 0 {
					ok = false
					break
				}
				cnt[s]--
				taken++
			}
			if ok {
				left -= taken
				if rec(i + 1) {
					return true
				}
				left += taken
			}
			for _, s := range a[:taken] {
				cnt[s]++
			}
		}
		return false
	}
	return rec(0)
}

func c19ExecQuery(c c19QCase) kit.Outcome {
	c19Setup(c.Cfg)
	defer c19Reset()
	o := kit.Outcome{}
	ref := c19RefParse(c.Q)

	req, opt, err := parseSearchQuery(c.Q, c.Cfg.Country, c.Cfg.WithLogin)

	feature := "plain"
	if ref.Quotes {
		feature = "quoted-first"
		for i, t := range ref.Terms {
			if t.Quoted && i > 0 {
				feature = "quoted-not-first"
			}
		}
	}
	if ref.Unspec != "" {
		o.Classes = append(o.Classes, "unspecified:"+ref.Unspec)
		return o
	}
	if ref.Err != "" {
		o.Classes = append(o.Classes, "must-reject:"+ref.Err)
		o.NonTrivial = len(ref.Terms) >= 2
		if err == nil {
			o.Viol = kit.V("malformed-accepted:"+ref.Err, "parseSearchQuery(%q) = required %q, optional %q, no error; the query is malformed (%s) and must be rejected",
				c.Q, req, opt, ref.Err)
		}
		return o
	}
	if len(ref.Terms) == 0 {
		o.Classes = append(o.Classes, "empty-query")
		if len(req) != 0 || len(opt) != 0 {
			o.Viol = kit.V("terms-differ:term-set:"+feature, "parseSearchQuery(%q) = %q / %q for a query without terms", c.Q, req, opt)
		}
		return o
	}
	var expReq, expOpt [][][]string
	rewritable := false
	rwKinds := map[string]bool{}
	for _, t := range ref.Terms {
		alts, rw, unspec := c19Accept(t, c.Cfg)
		if unspec != "" {
			o.Classes = append(o.Classes, "unspecified:"+unspec)
			return o
		}
		if rw != "" {
			rewritable = true
			rwKinds[rw] = true
		}
		if t.Optional {
			expOpt = append(expOpt, alts)
		} else {
			expReq = append(expReq, alts)
		}
	}
	o.NonTrivial = len(ref.Terms) >= 2 && (ref.Commas || ref.Quotes || rewritable)
	o.Classes = append(o.Classes, "must-accept", fmt.Sprintf("terms=%d", len(ref.Terms)))
	for _, k := range []string{"email", "tel", "basic"} {
		if rwKinds[k] {
			o.Classes = append(o.Classes, "rewrites-to:"+k)
		}
	}
	if ref.Quotes {
		o.Classes = append(o.Classes, "has-quoted-term")
	}
	if ref.Commas {
		o.Classes = append(o.Classes, "has-or")
	}
	if err != nil {
		o.Viol = kit.V("valid-rejected:"+feature, "parseSearchQuery(%q) failed with %q; the query is well-formed: %s", c.Q, err.Error(), c19Describe(ref))
		return o
	}
	if len(expReq) > 0 && len(expOpt) > 0 {
		// "aaa bbb, ccc" = "(bbb OR ccc) AND aaa" (docs/API.md): next to AND terms the OR group is one
		// more required disjunction, it must not come back as optional (ranking-only) terms.
		if len(opt) > 0 || len(req) != len(expReq)+1 {
			o.Viol = kit.V("or-group-not-required:"+feature, "parseSearchQuery(%q) = required %q, optional %q: with AND terms present the OR group must be the last required disjunction; want %s",
				c.Q, req, opt, c19Describe(ref))
			return o
		}
		opt = req[len(req)-1]
		req = req[:len(req)-1]
	}
	if !c19MatchReq(expReq, req) || !c19MatchOpt(expOpt, opt) {
		// categorise the difference for the signature
		wantAll, wantReq := map[string]int{}, map[string]int{}
		for _, t := range ref.Terms {
			wantAll[strings.ToLower(t.Text)]++
			if !t.Optional {
				wantReq[strings.ToLower(t.Text)]++
			}
		}
		gotAll, gotReq := map[string]int{}, map[string]int{}
		for _, r := range req {
			if len(r) > 0 {
				gotAll[r[0]]++
				gotReq[r[0]]++
			}
		}
		for _, s := range opt {
			if wantAll[s] > 0 || !strings.Contains(s, ":") {
				gotAll[s]++
			}
		}
		cat := "rewrite"
		if !reflect.DeepEqual(wantAll, gotAll) {
			cat = "term-set"
		} else if !reflect.DeepEqual(wantReq, gotReq) {
			cat = "and-or"
		}
		o.Viol = kit.V("terms-differ:"+cat+":"+feature, "parseSearchQuery(%q) [email=%d tel=%d login=%v withLogin=%v country=%q] = required %q, optional %q; want %s",
			c.Q, c.Cfg.Email, c.Cfg.Tel, c.Cfg.Login, c.Cfg.WithLogin, c.Cfg.Country, req, opt, c19Describe(ref))
	}
	if !c.Cfg.WithLogin && rewritable && o.Viol == nil {
		// observation only: does the private query keep the original next to the rewritten term?
		for _, r := range req {
			if len(r) == 2 {
				o.Classes = append(o.Classes, "note:private-query-keeps-original")
				break
			}
		}
	}
	return o
}

func c19Describe(ref c19Ref) string {
	var sb strings.Builder
	for i, t := range ref.Terms {
		if i > 0 {
			sb.WriteString(" ")
		}
		if t.Optional {
			sb.WriteString("OPT(")
		} else {
			sb.WriteString("REQ(")
		}
		if t.Quoted {
			sb.WriteString("literal ")
		}
		fmt.Fprintf(&sb, "%q)", strings.ToLower(t.Text))
	}
	return sb.String()
}

// ---------------------------------------------------------------- query generator

var c19Pool = [][]string{
	{"a@b.co", "x.y@ab.io", "Bob@Ex.com", "u+1@m.org"},                                        // e-mails
	{"+14155552671", "4155552671", "+447911123456", "07911123456", "415-555-2671", "+79161234567"}, // phones
	{"bob", "al_1", "alice", "x.y", "Carol", "u2"},                                            // logins
	{"flowers", "travel", "été", "мир", "東京", "new_york", "c++", "#tag", "Ünï"},                 // generic tags
	{"email:a@b.co", "tel:+14155552671", "basic:bob", "ns:val", "geo:9q8yy", "a:b", "ab:c:d", ":x", "ab_c:x"}, // prefixed / colon forms
}

var c19Alphabet = []rune("abcdxyzABZ0189  \t,,\":@+._-éжÖ東")

func c19GenCfg(rt *rapid.T) c19Cfg {
	return c19Cfg{
		Email:     rapid.SampledFrom([]int{0, 1, 2, 2}).Draw(rt, "email"),
		Tel:       rapid.SampledFrom([]int{0, 1, 2, 2}).Draw(rt, "tel"),
		Login:     rapid.Bool().Draw(rt, "login"),
		WithLogin: rapid.Bool().Draw(rt, "withLogin"),
		Country:   rapid.SampledFrom([]string{"US", "US", "GB", "RU", "DE", ""}).Draw(rt, "country"),
	}
}

var c19Short = []string{"bob", "u2", "ab", "x.y", "мир", "東京", "Zed", "al_1", "c++", "a@b.co", "ns:v", "été"}

func c19GenWord(rt *rapid.T, short bool) string {
	k := rapid.IntRange(0, 19).Draw(rt, "wk")
	switch {
	case short && k < 14:
		return rapid.SampledFrom(c19Short).Draw(rt, "short")
	case k < 13:
		grp := c19Pool[rapid.SampledFrom([]int{0, 0, 1, 1, 2, 2, 3, 3, 3, 4}).Draw(rt, "grp")]
		return rapid.SampledFrom(grp).Draw(rt, "pool")
	case k == 13:
		return string(rapid.SampledFrom([]rune("aZ9é東_")).Draw(rt, "one")) // single rune
	case k == 14 || k == 15:
		return c19GenNational(rt)
	default:
		return rapid.StringOfN(rapid.RuneFrom([]rune("abcxyzabcxyzABZ0189@+._-:éжÖ東")), 2, 6, 12).Draw(rt, "word")
	}
}

func c19GenQuery(rt *rapid.T) c19QCase {
	cfg := c19GenCfg(rt)
	var q string
	if rapid.IntRange(0, 11).Draw(rt, "mode") == 0 {
		q = rapid.StringOfN(rapid.RuneFrom(c19Alphabet), 0, 24, 48).Draw(rt, "free")
	} else {
		n := rapid.SampledFrom([]int{1, 2, 2, 2, 3, 3, 3, 4, 4, 5}).Draw(rt, "nterms")
		var sb strings.Builder
		if rapid.IntRange(0, 39).Draw(rt, "lead") == 0 {
			sb.WriteString(rapid.SampledFrom([]string{" ", ",", ", ", "\t"}).Draw(rt, "leadsep"))
		}
		for i := 0; i < n; i++ {
			if i > 0 {
				sb.WriteString(rapid.SampledFrom([]string{" ", " ", " ", " ", " ", " ", ",", ",", ",", ", ", ", ", " ,", " , ", "\t", "  ", ",\t",
					" ", ",", " ", ",", ",,", ", ,", ""}).Draw(rt, "sep"))
			}
			w := c19GenWord(rt, n >= 3)
			switch rapid.IntRange(0, 29).Draw(rt, "quote") {
			case 0, 1, 2, 3:
				w = `"` + w + `"`
			case 4: // separators inside the literal
				w = `"` + w + rapid.SampledFrom([]string{" ", ",", ", "}).Draw(rt, "insep") + c19GenWord(rt, true) + `"`
			case 5:
				w = rapid.SampledFrom([]string{`"` + w, w + `"`, `""`, `"` + w + `"` + `"`}).Draw(rt, "badq")
			}
			sb.WriteString(w)
		}
		if rapid.IntRange(0, 39).Draw(rt, "trail") == 0 {
			sb.WriteString(rapid.SampledFrom([]string{" ", ",", " ,", "\t"}).Draw(rt, "trailsep"))
		}
		q = sb.String()
	}
	if rs := []rune(q); len(rs) > 24 {
		q = string(rs[:24])
	}
	return c19QCase{Q: q, Cfg: cfg}
}

func TestC19Query(t *testing.T) {
	kit.Check(t, "C19", "TestC19Query", c19GenQuery, c19ExecQuery)
}

// ---------------------------------------------------------------- normalizeTags

type c19TagsCase struct {
	Tags     []string `json:"tags"`
	Nil      bool     `json:"nil"`
	MaxCount int      `json:"max_count"`
}

func c19NormOne(s string) (string, bool) {
	n := strings.ToLower(strings.TrimSpace(s))
	rs := []rune(n)
	if len(rs) < minTagLength || len(rs) > maxTagLength {
		return n, false
	}
	if !unicode.IsLetter(rs[0]) && !unicode.IsDigit(rs[0]) {
		return n, false
	}
	return n, true
}

func c19GenTag(rt *rapid.T) string {
	base := rapid.SampledFrom([]string{"flowers", "Travel", "email:a@b.co", "tel:+14155552671", "basic:bob", "été", "МИР", "東京",
		"ab", "a", "", "x1", "9lives", "New York", "#hash", "-dash", "_u", "@at", ".dot", "␡", "İstanbul", "ǅ", "ß", "a b"}).Draw(rt, "base")
	switch rapid.IntRange(0, 11).Draw(rt, "shape") {
	case 0:
		return " " + base
	case 1:
		return base + " \t"
	case 2:
		return "\n " + base + " "
	case 3:
		return strings.ToUpper(base)
	case 4:
		return rapid.SampledFrom([]string{"!", "?", ":", " ,", "(", "␡"}).Draw(rt, "punct") + base
	case 5: // around the length limit (runes, not bytes)
		n := rapid.SampledFrom([]int{94, 95, 96, 97, 98, 120}).Draw(rt, "len")
		unit := rapid.SampledFrom([]string{"a", "é", "東", "Z"}).Draw(rt, "unit")
		return strings.Repeat(unit, n)
	case 6:
		return rapid.StringOfN(rapid.RuneFrom([]rune("abAB01 :@.éЖ東_-!")), 0, 5, 12).Draw(rt, "rnd")
	default:
		return base
	}
}

func c19GenTags(rt *rapid.T) c19TagsCase {
	c := c19TagsCase{MaxCount: rapid.SampledFrom([]int{16, 16, 16, 1, 2, 3, 5, 8}).Draw(rt, "max")}
	if rapid.IntRange(0, 39).Draw(rt, "nil") == 0 {
		c.Nil = true
		return c
	}
	n := rapid.IntRange(0, 12).Draw(rt, "n")
	if rapid.IntRange(0, 5).Draw(rt, "many") == 0 {
		n = rapid.IntRange(c.MaxCount, c.MaxCount+6).Draw(rt, "nmany")
	}
	c.Tags = make([]string, 0, n)
	for i := 0; i < n; i++ {
		if i > 0 && rapid.IntRange(0, 5).Draw(rt, "dup") == 0 {
			d := c.Tags[rapid.IntRange(0, i-1).Draw(rt, "dupi")]
			if rapid.Bool().Draw(rt, "dupcase") {
				d = " " + strings.ToUpper(d)
			}
			c.Tags = append(c.Tags, d)
		} else {
			c.Tags = append(c.Tags, c19GenTag(rt))
		}
	}
	return c
}

func c19ExecTags(c c19TagsCase) kit.Outcome {
	defer c19Reset()
	globals.maxTagCount = c.MaxCount
	o := kit.Outcome{}
	if c.Nil {
		o.Classes = append(o.Classes, "nil-input")
		if out := normalizeTags(nil); out != nil {
			o.Viol = kit.V("tags-nil", "normalizeTags(nil)=%q", []string(out))
		}
		return o
	}
	in := append([]string(nil), c.Tags...)
	out := []string(normalizeTags(in))

	image := map[string]bool{}     // normalised image of the whole input
	imageHead := map[string]bool{} // ... of the first MaxCount entries
	hasDel, dup, dropped := false, false, false
	seenNorm := map[string]bool{}
	for i, s := range c.Tags {
		n, ok := c19NormOne(s)
		if n == nullValue {
			hasDel = true
		}
		if seenNorm[n] {
			dup = true
		}
		seenNorm[n] = true
		if ok {
			image[n] = true
			if i < c.MaxCount {
				imageHead[n] = true
			}
		} else {
			dropped = true
		}
	}
	overCount := len(c.Tags) > c.MaxCount
	o.NonTrivial = len(c.Tags) >= 2 && (dup || dropped || overCount)
	// (1) every output tag is normalised, valid and comes from the input; no duplicates
	seenOut := map[string]bool{}
	for _, tg := range out {
		n, ok := c19NormOne(tg)
		if n != tg || !ok {
			o.Viol = kit.V("tags-not-normalised", "normalizeTags(%q) [max %d] contains %q which is not trimmed/lower-case/letter-or-digit-first/within %d..%d runes", c.Tags, c.MaxCount, tg, minTagLength, maxTagLength)
			return o
		}
		if !image[tg] {
			o.Viol = kit.V("tags-invented", "normalizeTags(%q) [max %d] contains %q which is not the normal form of any input tag", c.Tags, c.MaxCount, tg)
			return o
		}
		if seenOut[tg] {
			o.Viol = kit.V("tags-duplicate", "normalizeTags(%q) [max %d] contains %q twice", c.Tags, c.MaxCount, tg)
			return o
		}
		seenOut[tg] = true
	}
	if len(out) > c.MaxCount {
		o.Viol = kit.V("tags-over-count", "normalizeTags(%q) returned %d tags, limit %d", c.Tags, len(out), c.MaxCount)
		return o
	}
	// (2) nothing valid is dropped except by the count limit
	switch {
	case hasDel:
		// The DEL marker asks to clear the tags; what else is returned next to it is not stated.
		o.Classes = append(o.Classes, "del-marker")
	case overCount:
		// Which tags fall victim to the limit is not stated (the code cuts the raw list first and says so).
		o.Classes = append(o.Classes, "count-limited")
		if len(out) == 0 && len(imageHead) > 0 && len(image) > 0 {
			o.Viol = kit.V("tags-dropped", "normalizeTags(%q) [max %d] returned nothing although the input has valid tags", c.Tags, c.MaxCount)
		}
	default:
		o.Classes = append(o.Classes, "within-count")
		for n := range image {
			if !seenOut[n] {
				o.Viol = kit.V("tags-dropped", "normalizeTags(%q) [max %d] = %q lost the valid tag %q", c.Tags, c.MaxCount, out, n)
				break
			}
		}
	}
	if dup {
		o.Classes = append(o.Classes, "has-duplicates")
	}
	if dropped {
		o.Classes = append(o.Classes, "has-invalid")
	}
	return o
}

func TestC19NormalizeTags(t *testing.T) {
	kit.Check(t, "C19", "TestC19NormalizeTags", c19GenTags, c19ExecTags)
}

// ---------------------------------------------------------------- restricted-namespace helpers

type c19RestrCase struct {
	Old []string `json:"old"`
	New []string `json:"new"`
	NS  []string `json:"ns"`
	Off []string `json:"ns_false"` // namespaces present in the map with value false
}

func c19GenRestr(rt *rapid.T) c19RestrCase {
	nsPool := []string{"email", "tel", "basic", "rest", "geo", "x1"}
	c := c19RestrCase{}
	for _, n := range nsPool {
		switch rapid.IntRange(0, 5).Draw(rt, "ns") {
		case 0, 1:
			c.NS = append(c.NS, n)
		case 2:
			c.Off = append(c.Off, n)
		}
	}
	genList := func(label string) []string {
		n := rapid.IntRange(0, 6).Draw(rt, label+"n")
		var out []string
		seen := map[string]bool{}
		for i := 0; i < n; i++ {
			var tg string
			switch rapid.IntRange(0, 9).Draw(rt, label+"k") {
			case 0, 1, 2, 3:
				tg = rapid.SampledFrom(nsPool).Draw(rt, label+"p") + ":" + rapid.SampledFrom([]string{"a@b.co", "+14155552671", "bob", "x", "9q8", "été"}).Draw(rt, label+"b")
			case 4:
				tg = rapid.SampledFrom([]string{"email", "tel:", "email:", ":email", "emai:l", "emails:x", "e:mail", "email:a:b", "email:a b", "email:(x)", "EMAIL:x", "tel_x:1", "email :x"}).Draw(rt, label+"odd")
			default:
				tg = rapid.SampledFrom([]string{"flowers", "travel", "ab", "мир", "x.y", "new_york"}).Draw(rt, label+"g")
			}
			if seen[tg] && rapid.IntRange(0, 3).Draw(rt, label+"dupok") > 0 {
				continue
			}
			seen[tg] = true
			out = append(out, tg)
		}
		return out
	}
	c.Old = genList("old")
	switch rapid.IntRange(0, 3).Draw(rt, "rel") {
	case 0: // permutation of old plus/minus one element
		c.New = append([]string(nil), c.Old...)
		for i := len(c.New) - 1; i > 0; i-- {
			j := rapid.IntRange(0, i).Draw(rt, "sh")
			c.New[i], c.New[j] = c.New[j], c.New[i]
		}
		if len(c.New) > 0 && rapid.Bool().Draw(rt, "drop") {
			k := rapid.IntRange(0, len(c.New)-1).Draw(rt, "dropi")
			c.New = append(c.New[:k:k], c.New[k+1:]...)
		}
		if rapid.Bool().Draw(rt, "add") {
			c.New = append(c.New, genList("extra")...)
		}
	default:
		c.New = genList("new")
	}
	return c
}

// c19NSOf: namespace of a well-formed prefixed tag; spec=false when the documents do not say
// whether the string counts as a tag of that namespace.
func c19NSOf(tag string) (ns string, prefixed, spec bool) {
	kind, ns := c19TagKind(tag)
	switch kind {
	case "prefixed":
		return ns, true, true
	case "plain":
		return "", false, true
	case "odd-prefix":
		return ns, true, false
	}
	// not a tag by the documented grammar; if it starts like "<word>:" its status is open
	if i := strings.IndexByte(tag, ':'); i > 0 {
		return strings.ToLower(strings.TrimSpace(tag[:i])), false, false
	}
	return "", false, true
}

func c19ExecRestr(c c19RestrCase) kit.Outcome {
	o := kit.Outcome{}
	ns := map[string]bool{}
	for _, n := range c.NS {
		ns[n] = true
	}
	for _, n := range c.Off {
		ns[n] = false
	}
	// model: multiset of tags in reserved namespaces; "open" tags may go either way
	model := func(tags []string) (must map[string]int, may map[string]int) {
		must, may = map[string]int{}, map[string]int{}
		for _, tg := range tags {
			n, prefixed, spec := c19NSOf(tg)
			if !ns[n] {
				continue
			}
			if spec && prefixed {
				must[tg]++
			} else if !spec {
				may[tg]++
			}
		}
		return
	}
	check := func(name string, tags []string) *kit.Viol {
		got := filterRestrictedTags(append([]string(nil), tags...), ns)
		must, may := model(tags)
		cnt := map[string]int{}
		for _, g := range got {
			cnt[g]++
		}
		for tg, n := range must {
			if cnt[tg] != n {
				return kit.V("restricted-filter-missed", "filterRestrictedTags(%q, %v)=%q: tag %q of a reserved namespace expected %d time(s), got %d", tags, ns, got, tg, n, cnt[tg])
			}
		}
		for tg, n := range cnt {
			if must[tg] == 0 && n > may[tg] {
				return kit.V("restricted-filter-extra", "filterRestrictedTags(%q, %v)=%q: %q is not in a reserved namespace", tags, ns, got, tg)
			}
		}
		return nil
	}
	if v := check("old", c.Old); v != nil {
		o.Viol = v
		return o
	}
	if v := check("new", c.New); v != nil {
		o.Viol = v
		return o
	}
	mo, yo := model(c.Old)
	mn, yn := model(c.New)
	got := restrictedTagsEqual(append([]string(nil), c.Old...), append([]string(nil), c.New...), ns)
	open := len(yo) > 0 || len(yn) > 0
	setEq := func(a, b map[string]int, exact bool) bool {
		if len(a) != len(b) {
			return false
		}
		for k, n := range a {
			if m, ok := b[k]; !ok || exact && m != n {
				return false
			}
		}
		return true
	}
	restricted := len(mo) > 0 || len(mn) > 0
	o.NonTrivial = restricted && len(c.Old)+len(c.New) >= 3
	switch {
	case open:
		o.Classes = append(o.Classes, "unspecified:malformed-prefixed-tag")
	case setEq(mo, mn, true):
		o.Classes = append(o.Classes, "same-restricted")
		if !got {
			o.Viol = kit.V("restricted-equal-false", "restrictedTagsEqual(%q, %q, %v)=false but both carry the same reserved-namespace tags", c.Old, c.New, ns)
		}
	case setEq(mo, mn, false):
		// same set, different multiplicities: lists with repeated tags are not described
		o.Classes = append(o.Classes, "unspecified:repeated-restricted-tag")
	default:
		o.Classes = append(o.Classes, "different-restricted")
		if got {
			o.Viol = kit.V("restricted-change-missed", "restrictedTagsEqual(%q, %q, %v)=true although the reserved-namespace tags differ", c.Old, c.New, ns)
		}
	}
	return o
}

func TestC19RestrictedTags(t *testing.T) {
	kit.Check(t, "C19", "TestC19RestrictedTags", c19GenRestr, c19ExecRestr)
}

// FuzzC19Query: the same generator and oracle as TestC19Query under Go's coverage-guided fuzzer (thorough tier).
func FuzzC19Query(f *testing.F) { kit.FuzzOf(f, "C19", "TestC19Query", c19GenQuery, c19ExecQuery) }

// FuzzC19NormalizeTags: the same generator and oracle as TestC19NormalizeTags under Go's coverage-guided fuzzer (thorough tier).
func FuzzC19NormalizeTags(f *testing.F) { kit.FuzzOf(f, "C19", "TestC19NormalizeTags", c19GenTags, c19ExecTags) }
