package drafty

// C13 (message content part) — arbitrary message content rendered into notification previews
// and plain text (push/fcm/payload.go calls Preview and PlainText on whatever a client
// published) never crashes the server: any content yields a string or an error.
//
// Generated Drafty documents: text with multi-byte graphemes; style spans whose at/len/key are
// negative, zero, exactly at, or beyond the boundaries; entity lists of any length; wrong JSON
// types in any position. Oracle: no panic; for well-formed documents (all spans inside the
// text, all keys inside the entity list) the plain text keeps every grapheme of the text.

import (
	"encoding/json"
	"fmt"
	"strings"
	"testing"

	kit "github.com/tinode/chat/server/zzverifkit"
	"pgregory.net/rapid"
)

type c13Span struct {
	At  any    `json:"at,omitempty"`
	Len any    `json:"len,omitempty"`
	Tp  string `json:"tp,omitempty"`
	Key any    `json:"key,omitempty"`
}

type c13Ent struct {
	Tp   any `json:"tp,omitempty"`
	Data any `json:"data,omitempty"`
}

type c13Doc struct {
	Txt    any       `json:"txt,omitempty"`
	Fmt    []c13Span `json:"fmt,omitempty"`
	Ent    []c13Ent  `json:"ent,omitempty"`
	RawFmt any       `json:"rawfmt,omitempty"` // when set replaces fmt with a value of the wrong type
	RawEnt any       `json:"rawent,omitempty"`
	Length int       `json:"length"`
	Hostile bool     `json:"hostile"`
}

func c13Gen(rt *rapid.T) c13Doc {
	d := c13Doc{}
	txt := rapid.StringOfN(rapid.RuneFrom([]rune("ab c\n😀é東👨‍👩‍👧x")), 0, 12, -1).Draw(rt, "txt")
	d.Txt = txt
	n := len([]rune(txt))
	d.Hostile = rapid.IntRange(0, 99).Draw(rt, "hostile") < 70
	nent := rapid.IntRange(0, 3).Draw(rt, "nent")
	for i := 0; i < nent; i++ {
		e := c13Ent{Tp: rapid.SampledFrom([]string{"LN", "MN", "HT", "IM", "EX", "BN", "FM", "RW", "XX", ""}).Draw(rt, "etp"),
			Data: map[string]any{"url": "http://x", "val": "v", "name": "n", "mime": "image/png", "width": 1, "height": 1}}
		if d.Hostile && rapid.IntRange(0, 9).Draw(rt, "ebad") == 0 {
			e.Tp = 7
			e.Data = "notamap"
		}
		d.Ent = append(d.Ent, e)
	}
	bound := func(label string, limit int) any {
		if !d.Hostile {
			if limit <= 0 {
				return 0
			}
			return rapid.IntRange(0, limit).Draw(rt, label)
		}
		return rapid.SampledFrom([]any{0, 1, limit - 1, limit, limit + 1, -1, -5, 1 << 30, 2.5, "3", nil, true}).Draw(rt, label)
	}
	nfmt := rapid.IntRange(0, 4).Draw(rt, "nfmt")
	for i := 0; i < nfmt; i++ {
		sp := c13Span{}
		sp.At = bound("at", n)
		at, _ := sp.At.(int)
		if d.Hostile {
			sp.Len = bound("len", n)
		} else {
			sp.Len = rapid.IntRange(0, max(0, n-at)).Draw(rt, "len")
		}
		if rapid.IntRange(0, 1).Draw(rt, "styled") == 0 {
			sp.Tp = rapid.SampledFrom([]string{"ST", "EM", "DL", "CO", "BR", "HD", "HL", "QQ", "RW", "FM", "ZZ"}).Draw(rt, "tp")
		} else if d.Hostile {
			sp.Key = bound("key", nent)
		} else if nent > 0 {
			sp.Key = rapid.IntRange(0, nent-1).Draw(rt, "key")
		} else {
			sp.Tp = "ST"
		}
		d.Fmt = append(d.Fmt, sp)
	}
	if d.Hostile {
		switch rapid.IntRange(0, 19).Draw(rt, "raw") {
		case 0:
			d.RawFmt = "fmt"
		case 1:
			d.RawFmt = []any{1, "x", nil}
		case 2:
			d.RawEnt = map[string]any{"a": 1}
		case 3:
			d.RawEnt = []any{nil, 5}
		case 4:
			d.Txt = 42
		case 5:
			d.Txt = nil
		}
	}
	d.Length = rapid.SampledFrom([]int{0, 1, 5, 80, -1}).Draw(rt, "length")
	return d
}

func (d c13Doc) content() any {
	m := map[string]any{}
	if d.Txt != nil {
		m["txt"] = d.Txt
	}
	if d.RawFmt != nil {
		m["fmt"] = d.RawFmt
	} else if len(d.Fmt) > 0 {
		m["fmt"] = d.Fmt
	}
	if d.RawEnt != nil {
		m["ent"] = d.RawEnt
	} else if len(d.Ent) > 0 {
		m["ent"] = d.Ent
	}
	// what the server sees: JSON decoded into map[string]any
	b, _ := json.Marshal(m)
	var out any
	json.Unmarshal(b, &out)
	return out
}

func c13Exec(d c13Doc) (o kit.Outcome) {
	content := d.content()
	o.NonTrivial = len(d.Fmt) > 0
	if d.Hostile {
		o.Classes = append(o.Classes, "hostile")
	} else {
		o.Classes = append(o.Classes, "well-formed")
	}
	call := func(name string, f func() (string, error)) (res string, err error, v *kit.Viol) {
		defer func() {
			if r := recover(); r != nil {
				v = kit.V("drafty-panic:"+name, "%s(%s) panicked: %v", name, c13JSON(content), r)
			}
		}()
		res, err = f()
		return
	}
	plain, perr, v := call("PlainText", func() (string, error) { return PlainText(content) })
	if v != nil {
		o.Viol = v
		return
	}
	_, _, v = call("Preview", func() (string, error) { return Preview(content, d.Length) })
	if v != nil {
		o.Viol = v
		return
	}
	if perr != nil {
		o.Classes = append(o.Classes, "rejected")
	}
	if !d.Hostile && perr == nil {
		// well-formed: every non-space rune of the text outside form/hidden spans survives into plain text
		txt, _ := d.Txt.(string)
		hidden := false
		for _, sp := range d.Fmt {
			if sp.Tp == "FM" || sp.Tp == "RW" || sp.Tp == "QQ" || sp.Tp == "HD" || sp.Tp == "BR" || sp.Tp == "" {
				hidden = true
			}
		}
		if !hidden {
			for _, r := range txt {
				if r == ' ' || r == '\n' || r == '‍' {
					continue
				}
				if !strings.ContainsRune(plain, r) {
					o.Viol = kit.V("plain-text-lost-rune", "PlainText(%s) = %q lost %q", c13JSON(content), plain, string(r))
					return
				}
			}
		}
	}
	return
}

func c13JSON(v any) string {
	b, err := json.Marshal(v)
	if err != nil {
		return fmt.Sprint(v)
	}
	return string(b)
}

func TestC13Drafty(t *testing.T) { kit.Check(t, "C13", "TestC13Drafty", c13Gen, c13Exec) }

// FuzzC13Drafty: the same generator and oracle as TestC13Drafty under Go's coverage-guided fuzzer (thorough tier).
func FuzzC13Drafty(f *testing.F) { kit.FuzzOf(f, "C13", "TestC13Drafty", c13Gen, c13Exec) }
