#!/bin/bash
# usage: tools/collect.sh C08  -- runs the quick tier tolerating every violation signature and lists them
cd /verif
VERIF_COLLECT=1 ./check "$1" --keep >/dev/null 2>&1
python3 - "$1" <<'PY'
import json,glob,sys
known=set(e['signature'] for e in json.load(open('/verif/known_findings.json'))['known'] if e['property']==sys.argv[1])
agg={}
for f in glob.glob('/verif/build/run-%s-*/out/*/stats-*.json'%sys.argv[1]):
    d=json.load(open(f))
    for s,n in (d.get('known_hits') or {}).items():
        a=agg.setdefault(s,[0,(d.get('known_msgs') or {}).get(s,''),d.get('known_examples',{}).get(s)])
        a[0]+=n
for s,(n,m,ex) in sorted(agg.items(), key=lambda x:-x[1][0]):
    print(('KNOWN ' if s in known else 'NEW   ')+str(n).rjust(5), s)
    if s not in known:
        print('        ', m[:600])
        print('        ', json.dumps(ex)[:1500])
PY
rm -rf /verif/build/run-$1-*
