#!/bin/bash
# usage: tools/seed_snap.sh <tag> [seed_run args...]  -- runs tools/seed_run.py from a private copy of /verif
# (so that /verif can be edited meanwhile) against a scratch worktree /tmp/seedtree-<tag>; results land in
# /verif/seeded/results as usual, the log in /tmp/logs/seed-<tag>.log. The copy is removed at the end.
tag=$1; shift
snap=/tmp/vsnap-$tag
rm -rf $snap; mkdir -p $snap /tmp/logs
rsync -a --exclude build --exclude found --exclude .git /verif/ $snap/
python3 $snap/tools/seed_run.py --tree /tmp/seedtree-$tag "$@" > /tmp/logs/seed-$tag.log 2>&1
rm -rf $snap
