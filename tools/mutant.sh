#!/bin/bash
# usage: tools/mutant.sh <name> <python-snippet-file>   -- makes a scratch copy of /repo's working tree in /tmp/mut-<name>
# (sources only), applies the edit snippet (python, cwd = copy) and prints the path.
set -e
d=/tmp/mut-$1
rm -rf "$d"; mkdir -p "$d"
rsync -a --exclude .git --exclude '*.test' /repo/ "$d"/
(cd "$d" && python3 "$2")
(cd "$d/server" && GOFLAGS=-mod=mod GOPROXY=off go build ./... ) || { echo "MUTANT DOES NOT BUILD"; exit 3; }
echo "$d"
