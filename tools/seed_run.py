#!/usr/bin/env python3
"""Runs the registered checks against the seeded changes in /verif/seeded.

usage: seed_run.py [--tier quick|thorough] [--also ID,ID] [--tree DIR] [name ...]
For every seeded/<ID>-<k>: git -C <tree> apply patch.diff; ./check <ID> --repo <tree> (and any check
listed with --also); git -C <tree> checkout -- .   Results go to /verif/seeded/results/<name>.json.
<tree> defaults to /repo itself; with --tree /tmp/x a scratch worktree of /repo's HEAD is created there
(and removed at the end), which leaves /repo free and lets several runners work side by side.
The tree is always restored, also on interruption.
"""
import json, os, subprocess, sys, time, glob, re, signal

HERE = os.path.dirname(os.path.dirname(os.path.abspath(__file__)))  # the copy of /verif this script runs from (a snapshot lets /verif be edited meanwhile)
ENV = dict(os.environ, GOFLAGS="-mod=mod", GOPROXY="off", GOSUMDB="off", GOTOOLCHAIN="local")


def sh(cmd, timeout=7200):
    p = subprocess.run(cmd, shell=True, env=ENV, stdout=subprocess.PIPE, stderr=subprocess.STDOUT, timeout=timeout)
    return p.returncode, p.stdout.decode(errors="replace")


TREE = "/repo"


def restore():
    # (reset --hard: a failed three-way apply leaves unmerged index entries which "checkout -- ." refuses to touch)
    if TREE == "/repo":
        sh("git -C %s checkout -q -- . && git -C %s clean -fdq" % (TREE, TREE))
    else:
        sh("git -C %s reset -q --hard HEAD && git -C %s clean -fdq" % (TREE, TREE))


def main():
    args = sys.argv[1:]
    tier = "quick"
    also = []
    names = []
    i = 0
    while i < len(args):
        if args[i] == "--tier":
            tier = args[i + 1]
            i += 2
        elif args[i] == "--tree":
            global TREE
            TREE = args[i + 1]
            i += 2
        elif args[i] == "--also":
            also = args[i + 1].split(",")
            i += 2
        else:
            names.append(args[i])
            i += 1
    if not names:
        names = sorted(os.path.basename(d) for d in glob.glob(HERE + "/seeded/C*-*"))
    scratch = TREE != "/repo"
    if scratch:
        sh("git -C /repo worktree remove --force " + TREE)
        rc, out = sh("git -C /repo worktree add --detach %s HEAD" % TREE)
        if rc:
            print(out)
            sys.exit(2)
    rc, out = sh("git -C %s status --porcelain" % TREE)
    if out.strip():
        print(TREE, "is not clean:", out)
        sys.exit(2)
    os.makedirs("/verif/seeded/results", exist_ok=True)
    results = {}
    signal.signal(signal.SIGTERM, lambda *a: (restore(), sys.exit(3)))
    try:
        for name in names:
            pid = name.split("-")[0]
            patch = HERE + "/seeded/%s/patch.diff" % name
            restore()
            rc, out = sh("git -C %s apply %s" % (TREE, patch))
            if rc:
                rc, out = sh("git -C %s apply -3 %s && git -C %s reset -q" % (TREE, patch, TREE))
                if rc:
                    results.setdefault(name, {})[tier] = {"status": "patch-does-not-apply-to-current-tree"}
                    print(name, "patch does not apply", flush=True)
                    restore()
                    save(name, results[name])
                    continue
            for cid in [pid] + also:
                t0 = time.time()
                rc, out = sh(HERE + "/check %s --tier %s --repo %s" % (cid, tier, TREE))
                viol = re.findall(r"^VIOLATION property=(\S+) replay=(\S+)", out, re.M)
                sigs = re.findall(r"^\s+violation: ([^:]+(?::[^ :]+)*):", out, re.M)
                r = {"exit": rc, "caught": rc == 1 and bool(viol), "wall_s": round(time.time() - t0, 1),
                     "signatures": sorted(set(sigs))[:6], "tail": out.strip().splitlines()[-1][:300] if out.strip() else ""}
                key = tier if cid == pid else "%s@%s" % (tier, cid)
                results.setdefault(name, {})[key] = r
                print(name, cid, tier, "CAUGHT" if r["caught"] else "missed(exit=%d)" % rc, r["signatures"][:3], flush=True)
            restore()
            save(name, results.get(name, {}))
    finally:
        restore()
        if scratch:
            sh("git -C /repo worktree remove --force " + TREE)
            sh("rm -rf " + TREE)


def save(name, new):
    f = "/verif/seeded/results/%s.json" % name
    old = json.load(open(f)) if os.path.exists(f) else {}
    old.update(new)
    head = subprocess.check_output(["git", "-C", "/repo", "rev-parse", "--short", "HEAD"]).decode().strip()
    old["repo_head"] = head
    json.dump(old, open(f, "w"), indent=1, sort_keys=True)


if __name__ == "__main__":
    main()
