#!/usr/bin/env python3
"""Confirms seeded changes delivered by the seeding agents and files them under /verif/seeded.

usage: seed_confirm.py <src-dir> [ID ...]
  <src-dir>/<ID>/{patch_k.diff, demo_k_test.go|demo_k.sh, meta_k.json}

For every change, in a scratch worktree of /repo (outside /repo and /verif, removed afterwards):
  1. the patch applies to the current HEAD and touches no test file,
  2. the tree builds,
  3. the pinned baseline suite still passes (84 tests),
  4. the demonstration fails with the patch and passes without it.
Only then it is copied to /verif/seeded/<ID>-<k>/ as patch.diff, demo (original name), meta.json
(meta gains a "confirmed" block with what was observed).
"""
import json, os, re, shutil, subprocess, sys, glob

ENV = dict(os.environ, GOFLAGS="-mod=mod", GOPROXY="off", GOSUMDB="off", GOTOOLCHAIN="local")
WT = os.environ.get("SEED_WT", "/tmp/wt-confirm")


def sh(cmd, cwd=None, timeout=1800):
    p = subprocess.run(cmd, shell=True, cwd=cwd, env=ENV, stdout=subprocess.PIPE, stderr=subprocess.STDOUT, timeout=timeout)
    return p.returncode, p.stdout.decode(errors="replace")


def reset():
    sh("git checkout -q -- . && git clean -fdq", WT)


def main():
    src = sys.argv[1]
    ids = sys.argv[2:] or sorted(os.path.basename(d) for d in glob.glob(src + "/C*"))
    if os.path.exists(WT):
        sh("git -C /repo worktree remove --force " + WT)
    rc, out = sh("git -C /repo worktree add --detach %s HEAD" % WT)
    if rc:
        print(out)
        sys.exit(2)
    results = []
    try:
        for pid in ids:
            for patch in sorted(glob.glob("%s/%s/patch_*.diff" % (src, pid))):
                k = re.search(r"patch_(\d+)\.diff", patch).group(1)
                name = "%s-%d" % (pid, int(k) + int(os.environ.get("SEED_OFFSET", "0")))  # second round: SEED_OFFSET=3
                res = {"seed": name}
                results.append(res)
                metaf = "%s/%s/meta_%s.json" % (src, pid, k)
                meta = json.load(open(metaf)) if os.path.exists(metaf) else {}
                demo = None
                for cand in ("demo_%s_test.go" % k, "demo_%s.sh" % k):
                    if os.path.exists("%s/%s/%s" % (src, pid, cand)):
                        demo = cand
                if demo is None:
                    res["status"] = "no-demo"
                    continue
                reset()
                body = open(patch).read()
                if re.search(r"^\+\+\+ b/.*_test\.go", body, re.M):
                    res["status"] = "touches-test-file"
                    continue
                rc, out = sh("git apply --check %s" % patch, WT)
                if rc:
                    rc, out = sh("git apply -3 %s" % patch, WT)
                    if rc:
                        res["status"] = "does-not-apply"
                        res["detail"] = out[-300:]
                        continue
                    sh("git reset -q", WT)
                    # regenerate the patch against the current HEAD
                    _, body = sh("git diff", WT)
                    res["rebased"] = True
                else:
                    sh("git apply %s" % patch, WT)
                tags = ""
                dm = meta.get("demo", {}) if isinstance(meta.get("demo"), dict) else {}
                m = re.search(r"-tags[ =](\S+)", dm.get("cmd", "") or "")
                if m:
                    tags = "-tags " + m.group(1)
                race = "-race" if "-race" in (dm.get("cmd", "") or "") else ""
                rc, out = sh("go build %s ./..." % tags, WT + "/server")
                if rc:
                    res["status"] = "build-fails"
                    res["detail"] = out[-300:]
                    continue
                rc, out = sh("/verif/tools/baseline.sh " + WT)
                res["baseline"] = out.strip().splitlines()[-1] if out.strip() else ""
                if rc:
                    res["status"] = "baseline-fails"
                    continue
                # the demonstration
                ddir = dm.get("dir", "server")
                ddir = re.sub(r"^/tmp/wt-[^/]+/", "", ddir).strip("/") or "server"
                if not os.path.isdir(os.path.join(WT, ddir)):
                    ddir = "server"
                demosrc = "%s/%s/%s" % (src, pid, demo)
                if demo.endswith(".go"):
                    text = open(demosrc).read()
                    tests = re.findall(r"^func (Test\w+)\(", text, re.M)
                    if not tests:
                        res["status"] = "demo-has-no-test"
                        continue
                    pkgm = re.search(r"^package (\w+)", text, re.M)
                    dst = os.path.join(WT, ddir, "zz_demo_%s_test.go" % k)
                    runexpr = "^(%s)$" % "|".join(tests)
                    cmd = "go test %s %s -vet=off -run '%s' -count=1 ." % (tags, race, runexpr)

                    def run_demo():
                        shutil.copy(demosrc, dst)
                        r = sh(cmd, os.path.join(WT, ddir), timeout=900)
                        os.remove(dst)
                        return r
                else:
                    cmd = "bash %s %s" % (demosrc, WT)

                    def run_demo():
                        return sh(cmd, WT, timeout=900)
                rc1, out1 = run_demo()
                sh("git checkout -q -- . ", WT)
                rc0, out0 = run_demo()
                res["demo_with_patch"] = "fail" if rc1 else "pass"
                res["demo_on_head"] = "fail" if rc0 else "pass"
                if rc1 == 0 or rc0 != 0:
                    res["status"] = "demo-not-discriminating"
                    res["detail"] = (out1[-400:] if rc1 == 0 else out0[-400:])
                    continue
                res["status"] = "confirmed"
                dstdir = "/verif/seeded/" + name
                os.makedirs(dstdir, exist_ok=True)
                open(dstdir + "/patch.diff", "w").write(body)
                shutil.copy(demosrc, dstdir + "/" + ("demo_test.go.txt" if demo.endswith(".go") else "demo.sh"))
                head = subprocess.check_output(["git", "-C", "/repo", "rev-parse", "--short", "HEAD"]).decode().strip()
                meta["confirmed"] = {"against_repo_head": head, "builds": True, "baseline": res["baseline"],
                                     "demo_cmd": cmd, "demo_dir": ddir, "demo_with_patch": "fail", "demo_on_head": "pass",
                                     "demo_failure_tail": out1[-600:]}
                json.dump(meta, open(dstdir + "/meta.json", "w"), indent=1)
                print(name, "confirmed", flush=True)
            for r in results:
                if r["seed"].startswith(pid) and r.get("status") != "confirmed":
                    print(r, flush=True)
    finally:
        sh("git -C /repo worktree remove --force " + WT)
        sh("rm -rf " + WT)
    json.dump(results, open(src + "/confirm_results_%s.json" % "_".join(ids)[:40], "w"), indent=1)
    ok = sum(1 for r in results if r.get("status") == "confirmed")
    print("confirmed %d of %d" % (ok, len(results)))


if __name__ == "__main__":
    main()
