#!/bin/bash
# usage: tools/allquick.sh <seed> [<seed> ...]  -- every registered quick check at the given VERIF_SEED values;
# prints one line per run and a summary of anything that is not "exit 0 without VIOLATION".
cd /verif
bad=0
for seed in "$@"; do
  for id in $(python3 -c "import json;print(' '.join(c['property_id'] for c in json.load(open('MANIFEST.json'))['checks']))"); do
    out=$(VERIF_SEED=$seed ./check $id --tier quick 2>&1); rc=$?
    line=$(printf '%s\n' "$out" | grep -E "^\[$id\]" | tail -1)
    echo "seed=$seed $id rc=$rc $line"
    if [ $rc -ne 0 ] || printf '%s\n' "$out" | grep -q "^VIOLATION"; then
      bad=$((bad+1)); printf '%s\n' "$out" | grep -E "violation|VIOLATION|INCONCLUSIVE" | head -5 | cut -c1-300
    fi
  done
done
echo "not clean: $bad"
