#!/bin/bash
# Runs tinode/chat's pinned baseline suite (guard off: no verif tags, no overlay) and
# checks that the 84 stable tests named in /root/.vp/BASELINE.json pass.
export GOFLAGS=-mod=mod GOPROXY=off GOSUMDB=off
cd "${1:-/repo}/server" || exit 2
out=$(go test -json -vet=off -count=1 . ./db/common ./drafty ./ringhash 2>&1)
pass=$(printf '%s\n' "$out" | grep -c '"Action":"pass","Package":"[^"]*","Test":"[^"/]*"')
fail=$(printf '%s\n' "$out" | grep -c '"Action":"fail","Package":"[^"]*","Test":"')
echo "baseline: pass=$pass fail=$fail"
git -C "${1:-/repo}" checkout -- go.sum 2>/dev/null
[ "$fail" = 0 ] && [ "$pass" -ge 84 ]
