#!/bin/bash
# Development aid: run the C14 unit in N processes without halting on race reports and
# summarise distinct races / hangs. usage: tools/c14collect.sh [nshards] [checks]
cd /verif
N=${1:-8}; K=${2:-150}
rm -rf build/run-C14-* /tmp/c14r; mkdir -p /tmp/c14r
./check C14 --replay replays/C01/number-burnt-by-failed-save.json --keep >/dev/null 2>&1
B=/verif/$(ls build/run-C14-*/b/server_race.test | head -1)
for s in $(seq 1 $N); do (mkdir -p /tmp/c14r/s$s && cd /tmp/c14r/s$s && VERIF_OUT=/tmp/c14r/s$s VERIF_KNOWN=/verif/known_findings.json GORACE="halt_on_error=0" $B -test.run '^TestC14Races$' -rapid.checks=$K -rapid.seed=$((s*7919)) -rapid.nofailfile -test.timeout 900s > out.txt 2>&1) & done; wait
python3 - <<'PY'
import re,glob
seen={}
for f in glob.glob('/tmp/c14r/s*/out.txt'):
    txt=open(f,errors='replace').read()
    for rep in txt.split('WARNING: DATA RACE')[1:]:
        rep=rep.split('==================')[0]
        parts=re.split(r'\n(?=Previous |Goroutine )',rep)
        tops=[]
        for part in parts[:2]:
            fr=re.findall(r'\n  ([^\n]+)\(\)\n\s+(/repo/server/[\w/.]+:\d+)',part)
            fr=[(a.split('/')[-1],b) for a,b in fr if 'zz_verif' not in b]
            tops.append(' < '.join('%s@%s'%(a,b.split('/')[-1]) for a,b in fr[:2]) or '?')
        key='RACE '+' <-> '.join(tops)
        seen[key]=seen.get(key,0)+1
    if 'VERIF-HANG' in txt:
        m=re.search(r'goroutine \d+ \[sync.WaitGroup.Wait[^\n]*\n(.*?)\n\n',txt,re.S)
        fr=re.findall(r'server\.([^\n(]+)\(',m.group(1)) if m else []
        key='HANG '+' < '.join(fr[:4])
        seen[key]=seen.get(key,0)+1
    m=re.search(r'violation ([^\n]*)',txt)
    if m: seen['VIOL '+m.group(1)[:300]]=seen.get('VIOL '+m.group(1)[:300],0)+1
for k,v in sorted(seen.items(), key=lambda x:-x[1]): print(v,k)
PY
rm -rf build/run-C14-*
