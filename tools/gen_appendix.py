#!/usr/bin/env python3
"""Regenerates the machine-made tables of DESIGN.md (between the GENERATED markers) from
known_findings.json, seeded/*/meta.json, seeded/results/*.json and evidence/*.json."""
import json, glob, os, re, subprocess

V = "/verif"


def esc(s):
    return str(s).replace("|", "\\|").replace("\n", " ")


def fixes():
    d = json.load(open(V + "/known_findings.json"))
    subj = {}
    for line in subprocess.check_output(["git", "-C", "/repo", "log", "--format=%h\t%s"]).decode().splitlines():
        h, s = line.split("\t", 1)
        subj[h] = s
    out = ["| # | property | commit | what failed (input / history) |", "|---|---|---|---|"]
    rows = sorted(d["fixed"], key=lambda e: (e["property"], e["commit"] or ""))
    for i, e in enumerate(rows, 1):
        what = re.sub(r"^fixed: property=\S+ \S+ ", "", e["what"])
        out.append("| %d | %s | `%s` %s | %s |" % (i, e["property"], e["commit"], esc(subj.get(e["commit"], ""))[:90], esc(what)[:420]))
    return "\n".join(out), len(rows)


def known():
    d = json.load(open(V + "/known_findings.json"))
    out = ["| property | signature (a trailing `*` matches any suffix) | what fails | replay |", "|---|---|---|---|"]
    for k in sorted(d["known"], key=lambda e: (e["property"], e["signature"])):
        out.append("| %s | `%s` | %s | %s |" % (k["property"], k["signature"], esc(k["what"])[:520], esc(k.get("replay", ""))))
    return "\n".join(out), len(d["known"])


def seeds():
    out = ["| seeded change | what was changed (one line) | caught by | signatures seen |", "|---|---|---|---|"]
    n = caught = 0
    for d in sorted(glob.glob(V + "/seeded/C*-*")):
        name = os.path.basename(d)
        meta = json.load(open(d + "/meta.json")) if os.path.exists(d + "/meta.json") else {}
        rf = V + "/seeded/results/%s.json" % name
        res = json.load(open(rf)) if os.path.exists(rf) else {}
        by, sigs = [], []
        for k, r in res.items():
            if not isinstance(r, dict) or not r.get("caught"):
                continue
            tier, _, cid = k.partition("@")
            by.append("%s %s" % (cid or name.split("-")[0], tier))
            sigs += r.get("signatures", [])[:2]
        n += 1
        if by:
            caught += 1
        verdict = ", ".join(sorted(set(by))) if by else "**not caught**"
        q = res.get("quick", {})
        if not by and q.get("status"):
            verdict = q["status"]
        if not by and not res:
            verdict = "not run"
        out.append("| %s | %s | %s | %s |" % (name, esc(meta.get("summary", ""))[:230], verdict, esc(", ".join(sorted(set(s for s in sigs if not s.startswith("REPLAY"))))[:160])))
    return "\n".join(out), n, caught


def costs():
    out = ["| property | tier | evaluations | distinct non-trivial | wall (s) |", "|---|---|---|---|---|"]
    for f in sorted(glob.glob(V + "/evidence/C*.json")):
        e = json.load(open(f))
        c = e.get("coverage", {})
        if e.get("property_id") == "C99":
            continue
        out.append("| %s | %s | %s | %s | %s |" % (e.get("property_id"), e.get("tier"), c.get("evaluations"), c.get("distinct_nontrivial"), e.get("wall_s", "")))
    return "\n".join(out)


def main():
    p = V + "/DESIGN.md"
    s = open(p).read()
    f, nf = fixes()
    k, nk = known()
    sd, ns, nc = seeds()
    blocks = {
        "FIXES": "%d repairs (one `fix:` commit each in /repo, existing 84 tests pass unedited after each):\n\n%s" % (nf, f),
        "KNOWN": "%d signatures listed in `/verif/known_findings.json` (the checks print `KNOWN-FINDING:` for them and exit 0):\n\n%s" % (nk, k),
        "SEEDS": "%d seeded changes, %d caught by a registered check:\n\n%s" % (ns, nc, sd),
        "COSTS": costs(),
    }
    for name, body in blocks.items():
        a, b = "<!-- GENERATED:%s -->" % name, "<!-- /GENERATED:%s -->" % name
        if a in s and b in s:
            i, j = s.index(a) + len(a), s.index(b)
            s = s[:i] + "\n" + body + "\n" + s[j:]
    open(p, "w").write(s)
    print("fixes", nf, "known", nk, "seeds", ns, "caught", nc)


if __name__ == "__main__":
    main()
